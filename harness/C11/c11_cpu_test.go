//go:build verif

// C11 — Node-pressure eviction takes only eligible victims, in order, and only as needed.
// Units "cpuLists" (victim eligibility + published order of the three cpuevict victim lists) and
// "cpuEndToEnd" (cpuEvict() itself: the real task builder feeding the real loop, observed at a recording executor).
// The pod generator and the restated rules are the same as in c11_mem_test.go (a harness file belongs to one package).
// See /verif/DESIGN.md §1 C11. In-package harness (injected with -overlay).
//
// Every rule the oracle uses (QoS, priority defaulting, policy annotation, label parsing, request translation) is
// restated here from the published API docs and evaluated on the *generated* description of the pod (c11Pod),
// never by calling koordinator helpers.
package cpuevict

import (
	"fmt"
	"os"
	"sort"
	"strings"
	"testing"
	"time"

	promstorage "github.com/prometheus/prometheus/storage"
	corev1 "k8s.io/api/core/v1"
	"k8s.io/apimachinery/pkg/api/resource"
	metav1 "k8s.io/apimachinery/pkg/apis/meta/v1"
	"k8s.io/apimachinery/pkg/types"
	"k8s.io/component-base/featuregate"
	"pgregory.net/rapid"

	apiext "github.com/koordinator-sh/koordinator/apis/extension"
	slov1alpha1 "github.com/koordinator-sh/koordinator/apis/slo/v1alpha1"
	"github.com/koordinator-sh/koordinator/pkg/features"
	"github.com/koordinator-sh/koordinator/pkg/koordlet/metriccache"
	qosmanagerUtil "github.com/koordinator-sh/koordinator/pkg/koordlet/qosmanager/plugins/util"
	"github.com/koordinator-sh/koordinator/pkg/koordlet/statesinformer"
	"github.com/koordinator-sh/koordinator/pkg/verifkit/vk"
)

// ---------------------------------------------------------------- generated pod description (the oracle's ground truth)

type c11Opt struct { // a label / annotation: absent, or a value with the meaning the docs give it
	Set   bool
	Value string
	OK    bool  // value is well-formed
	Int   int64 // parsed value when OK
}

type c11Pod struct {
	Idx         int
	Name        string
	QoS         string // koordinator.sh/qosClass label ("" = label absent)
	KubeQoS     corev1.PodQOSClass
	Prio        *int32
	ClassLabel  string // koordinator.sh/priority-class label ("" = absent)
	EvictLabel  c11Opt // koordinator.sh/eviction-enabled
	PrioLabel   c11Opt // koordinator.sh/priority
	EvictPrio   c11Opt // koordinator.sh/eviction-priority
	PolicyAnn   c11Opt // koordinator.sh/eviction-policy; OK = a JSON list of strings
	PolicyList  []string
	Phase       corev1.PodPhase
	Containers  []map[corev1.ResourceName]int64 // requests per container
	HasMetric   bool
	Metric      int64 // cpu in use, in units of 1/8 core (125 milli-cores)
	pod         *corev1.Pod
	alreadyEvic bool
	nilMaps     bool
	outcomes    []bool
}

func (p *c11Pod) String() string {
	pr := "nil"
	if p.Prio != nil {
		pr = fmt.Sprint(*p.Prio)
	}
	o := func(x c11Opt) string {
		if !x.Set {
			return "-"
		}
		return fmt.Sprintf("%q", x.Value)
	}
	m := "none"
	if p.HasMetric {
		m = fmt.Sprint(p.Metric)
	}
	return fmt.Sprintf("%s{qos=%q kubeQoS=%s prio=%s classLabel=%q evictEnabled=%s prioLabel=%s evictPrio=%s policy=%s phase=%q req=%v cpuUsed(1/8 core)=%s alreadyEvicted=%v}",
		p.Name, p.QoS, p.KubeQoS, pr, p.ClassLabel, o(p.EvictLabel), o(p.PrioLabel), o(p.EvictPrio), o(p.PolicyAnn), p.Phase, p.Containers, m, p.alreadyEvic)
}

// koordinator priority classes by value range (https://koordinator.sh/docs/architecture/priority/)
func c11ClassOfValue(v int32) string {
	switch {
	case v >= 9000 && v <= 9999:
		return "koord-prod"
	case v >= 7000 && v <= 7999:
		return "koord-mid"
	case v >= 5000 && v <= 5999:
		return "koord-batch"
	case v >= 3000 && v <= 3999:
		return "koord-free"
	}
	return ""
}

func (p *c11Pod) koordQoS() string {
	switch p.QoS {
	case "LSE", "LSR", "LS", "BE", "SYSTEM":
		return p.QoS
	}
	switch p.KubeQoS { // default by kubernetes QoS
	case corev1.PodQOSGuaranteed:
		return "LSR"
	case corev1.PodQOSBurstable:
		return "LS"
	}
	return "BE"
}

// priority class: explicit label, else by the value range, else the default of the QoS class
func (p *c11Pod) class() string {
	switch p.ClassLabel {
	case "koord-prod", "koord-mid", "koord-batch", "koord-free":
		return p.ClassLabel
	}
	if p.ClassLabel == "" && p.Prio != nil {
		if c := c11ClassOfValue(*p.Prio); c != "" {
			return c
		}
	}
	if p.koordQoS() == "BE" {
		return "koord-batch"
	}
	return "koord-prod"
}

// priority value: the pod's own non-zero value, else the default value of its class
func (p *c11Pod) prio() int32 {
	if p.Prio != nil && *p.Prio != 0 {
		return *p.Prio
	}
	switch p.class() {
	case "koord-prod":
		return 9500
	case "koord-mid":
		return 7500
	case "koord-batch":
		return 5500
	case "koord-free":
		return 3500
	}
	return 0
}

func (p *c11Pod) isBE() bool         { return p.QoS == "BE" }
func (p *c11Pod) active() bool       { return p.Phase == corev1.PodPending || p.Phase == corev1.PodRunning }
func (p *c11Pod) evictEnabled() bool { return p.EvictLabel.Set && p.EvictLabel.Value == "true" }
func (p *c11Pod) allows(policy string) bool {
	if !p.PolicyAnn.Set {
		return true // no annotation: no restriction
	}
	if !p.PolicyAnn.OK {
		return false // unreadable restriction: treated as "not allowed"
	}
	for _, x := range p.PolicyList {
		if x == policy {
			return true
		}
	}
	return false
}
func (p *c11Pod) evictionPriority() int64 {
	if p.EvictPrio.Set && p.EvictPrio.OK {
		return p.EvictPrio.Int
	}
	return 0
}
func (p *c11Pod) labelPriority() int64 {
	if p.PrioLabel.Set && p.PrioLabel.OK {
		return p.PrioLabel.Int
	}
	return int64(p.prio())
}

// the pod holds r by request and also has a container that declares no r at all
func (p *c11Pod) hasHelperFor(r corev1.ResourceName) bool {
	declared, missing := false, false
	for _, c := range p.Containers {
		if v, ok := c[r]; ok && v > 0 {
			declared = true
		} else if !ok {
			missing = true
		}
	}
	return declared && missing
}

func (p *c11Pod) sumReq(r corev1.ResourceName) int64 {
	var s int64
	for _, c := range p.Containers {
		if c[r] > 0 {
			s += c[r]
		}
	}
	return s
}

// the cpu (milli-cores) a pod holds by request, under the resource name of its priority class
func (p *c11Pod) cpuRequest() (corev1.ResourceName, int64) {
	switch p.class() {
	case "koord-batch":
		return apiext.BatchCPU, p.sumReq(apiext.BatchCPU)
	case "koord-mid":
		return apiext.MidCPU, p.sumReq(apiext.MidCPU)
	}
	return corev1.ResourceCPU, p.sumReq(corev1.ResourceCPU)
}

// by-priority lists: policy allows the pod
func (p *c11Pod) allowedByPriority(policy string, threshold int32) bool {
	return p.active() && p.allows(policy) && p.prio() <= threshold && p.evictEnabled()
}

var c11Policies = []string{string(features.BECPUEvict), string(features.CPUAllocatableEvict), string(features.CPUEvict)}

func c11GenPod(t *rapid.T, prioPool, friendlyPrio []int32, friendlyCase bool, scale int64) *c11Pod {
	p := &c11Pod{}
	friendly := friendlyCase && rapid.IntRange(0, 4).Draw(t, "eligiblePod") > 0
	p.QoS = rapid.SampledFrom([]string{"", "BE", "BE", "BE", "BE", "LS", "LS", "LSR", "LSE", "SYSTEM", "bogus"}).Draw(t, "qos")
	prioKind := rapid.IntRange(0, 19).Draw(t, "prioKind")
	if friendly && prioKind > 1 {
		prioKind = 20
	}
	switch prioKind {
	case 20: // a handful of values at or below the thresholds: many eligible pods, many ties
		v := rapid.SampledFrom(friendlyPrio).Draw(t, "prioFriendly")
		p.Prio = &v
	case 0:
		p.Prio = nil
	case 1:
		v := int32(0)
		p.Prio = &v
	case 2, 3:
		v := rapid.Int32Range(-10, 10000).Draw(t, "prioAny")
		p.Prio = &v
	default:
		v := rapid.SampledFrom(prioPool).Draw(t, "prio")
		p.Prio = &v
	}
	p.ClassLabel = rapid.SampledFrom([]string{"", "", "", "", "", "", "koord-batch", "koord-mid", "koord-prod", "koord-free", "bogus"}).Draw(t, "classLabel")
	p.EvictLabel = rapid.SampledFrom([]c11Opt{{}, {Set: true, Value: "true"}, {Set: true, Value: "true"}, {Set: true, Value: "true"}, {Set: true, Value: "true"},
		{Set: true, Value: "false"}, {Set: true, Value: "True"}, {Set: true, Value: ""}}).Draw(t, "evictEnabled")
	if friendly && rapid.IntRange(0, 9).Draw(t, "evictEnabledFriendly") > 0 {
		p.EvictLabel = c11Opt{Set: true, Value: "true"}
	}
	p.PrioLabel = rapid.SampledFrom([]c11Opt{{}, {}, {}, {Set: true, Value: "0", OK: true, Int: 0}, {Set: true, Value: "5", OK: true, Int: 5}, {Set: true, Value: "7", OK: true, Int: 7},
		{Set: true, Value: "9999", OK: true, Int: 9999}, {Set: true, Value: "-3", OK: true, Int: -3}, {Set: true, Value: "x"}, {Set: true, Value: ""}}).Draw(t, "prioLabel")
	p.EvictPrio = rapid.SampledFrom([]c11Opt{{}, {}, {}, {}, {Set: true, Value: "0", OK: true}, {Set: true, Value: "-1", OK: true, Int: -1}, {Set: true, Value: "1", OK: true, Int: 1},
		{Set: true, Value: "100", OK: true, Int: 100}, {Set: true, Value: "-2147483648", OK: true, Int: -2147483648}, {Set: true, Value: "2147483647", OK: true, Int: 2147483647},
		{Set: true, Value: "2147483648"}, {Set: true, Value: "abc"}, {Set: true, Value: ""}}).Draw(t, "evictionPriority")
	policyKind := rapid.IntRange(0, 11).Draw(t, "policyKind")
	if friendly && rapid.IntRange(0, 3).Draw(t, "policyFriendly") > 0 {
		policyKind = 0
	}
	switch policyKind {
	case 0, 1, 2, 3, 4:
	case 5, 6, 7, 8: // a well-formed list: any subset of the policies, possibly with a foreign one
		var l []string
		for _, pol := range c11Policies {
			if rapid.Bool().Draw(t, "policyHas"+pol) {
				l = append(l, pol)
			}
		}
		if rapid.Bool().Draw(t, "policyHasOther") {
			l = append(l, "SomethingElse")
		}
		q := make([]string, len(l))
		for i, x := range l {
			q[i] = fmt.Sprintf("%q", x)
		}
		p.PolicyAnn = c11Opt{Set: true, OK: true, Value: "[" + strings.Join(q, ",") + "]"}
		p.PolicyList = l
	case 9: // well-formed but names the policies in another spelling
		p.PolicyAnn = c11Opt{Set: true, OK: true, Value: `["becpuevict","cpuEvict","CPUAllocatableEvict "]`}
		p.PolicyList = []string{"becpuevict", "cpuEvict", "CPUAllocatableEvict "}
	default: // not a JSON list of strings
		p.PolicyAnn = c11Opt{Set: true, Value: rapid.SampledFrom([]string{"", "BECPUEvict", `"CPUEvict"`, `["CPUEvict"`, `{"CPUEvict":true}`, `[1,2]`,
			`["CPUEvict",1]`, `CPUEvict,BECPUEvict,CPUAllocatableEvict`}).Draw(t, "policyMalformed")}
	}
	p.Phase = rapid.SampledFrom([]corev1.PodPhase{corev1.PodRunning, corev1.PodRunning, corev1.PodRunning, corev1.PodRunning, corev1.PodRunning, corev1.PodRunning,
		corev1.PodPending, corev1.PodSucceeded, corev1.PodFailed, corev1.PodUnknown, ""}).Draw(t, "phase")
	if friendly && rapid.IntRange(0, 5).Draw(t, "phaseFriendly") > 0 {
		p.Phase = corev1.PodRunning
	}
	nC := rapid.IntRange(1, 2).Draw(t, "containers")
	shape := rapid.IntRange(0, 5).Draw(t, "requestShape")
	native := false
	for c := 0; c < nC; c++ {
		req := map[corev1.ResourceName]int64{}
		amt := func(l string) int64 { return rapid.Int64Range(0, 6).Draw(t, l) * scale }
		switch shape {
		case 0, 1: // batch-shaped
			req[apiext.BatchCPU] = amt("batchCPU")
			req[apiext.BatchMemory] = rapid.Int64Range(0, 4096).Draw(t, "batchMem")
		case 2: // mid-shaped
			req[apiext.MidCPU] = amt("midCPU")
			req[apiext.MidMemory] = rapid.Int64Range(0, 4096).Draw(t, "midMem")
		case 3: // native
			req[corev1.ResourceCPU] = amt("cpu")
			req[corev1.ResourceMemory] = rapid.Int64Range(0, 4096).Draw(t, "mem")
		case 4: // everything
			req[apiext.BatchCPU] = amt("batchCPU")
			req[apiext.MidCPU] = amt("midCPU")
			req[corev1.ResourceCPU] = amt("cpu")
		default: // nothing
		}
		if req[corev1.ResourceMemory] > 0 || req[corev1.ResourceCPU] > 0 {
			native = true
		}
		p.Containers = append(p.Containers, req)
	}
	if native {
		p.KubeQoS = rapid.SampledFrom([]corev1.PodQOSClass{corev1.PodQOSBurstable, corev1.PodQOSBurstable, corev1.PodQOSGuaranteed}).Draw(t, "kubeQoS")
	} else {
		p.KubeQoS = corev1.PodQOSBestEffort
	}
	p.HasMetric = rapid.IntRange(0, 6).Draw(t, "hasMetric") > 0
	if p.HasMetric {
		p.Metric = rapid.Int64Range(0, 16).Draw(t, "cpuUsed")
	}
	p.nilMaps = rapid.IntRange(0, 9).Draw(t, "nilMaps") == 9 // objects decoded from the API have nil maps when empty
	return p
}

// build names the pod by its position and renders the corev1.Pod
func (p *c11Pod) build(i int) {
	p.Idx, p.Name = i, fmt.Sprintf("p%d", i)
	pod := &corev1.Pod{ObjectMeta: metav1.ObjectMeta{Name: p.Name, Namespace: "ns", UID: types.UID("uid-" + p.Name), Labels: map[string]string{}, Annotations: map[string]string{}}}
	if p.QoS != "" {
		pod.Labels[apiext.LabelPodQoS] = p.QoS
	}
	if p.ClassLabel != "" {
		pod.Labels[apiext.LabelPodPriorityClass] = p.ClassLabel
	}
	if p.EvictLabel.Set {
		pod.Labels[apiext.LabelPodEvictEnabled] = p.EvictLabel.Value
	}
	if p.PrioLabel.Set {
		pod.Labels[apiext.LabelPodPriority] = p.PrioLabel.Value
	}
	if p.EvictPrio.Set {
		pod.Annotations[apiext.AnnotationPodEvictionPriority] = p.EvictPrio.Value
	}
	if p.PolicyAnn.Set {
		pod.Annotations[apiext.AnnotationPodEvictPolicy] = p.PolicyAnn.Value
	}
	if p.nilMaps {
		if len(pod.Labels) == 0 {
			pod.Labels = nil
		}
		if len(pod.Annotations) == 0 {
			pod.Annotations = nil
		}
	}
	if p.Prio != nil {
		v := *p.Prio
		pod.Spec.Priority = &v
	}
	pod.Status.Phase = p.Phase
	pod.Status.QOSClass = p.KubeQoS
	for ci, req := range p.Containers {
		rl := corev1.ResourceList{}
		for r, v := range req {
			switch r {
			case corev1.ResourceCPU:
				rl[r] = *resource.NewMilliQuantity(v, resource.DecimalSI)
			case apiext.BatchCPU, apiext.MidCPU:
				rl[r] = *resource.NewQuantity(v, resource.DecimalSI)
			default:
				rl[r] = *resource.NewQuantity(v, resource.BinarySI)
			}
		}
		pod.Spec.Containers = append(pod.Spec.Containers, corev1.Container{Name: fmt.Sprintf("c%d", ci), Resources: corev1.ResourceRequirements{Requests: rl}})
	}
	p.pod = pod
}

// ---------------------------------------------------------------- fakes: informer, metric cache, executor

type c11SI struct {
	statesinformer.StatesInformer
	pods    []*statesinformer.PodMeta
	node    *corev1.Node
	nodeSLO *slov1alpha1.NodeSLO
}

func (s *c11SI) GetAllPods() []*statesinformer.PodMeta { return s.pods }
func (s *c11SI) GetNode() *corev1.Node                 { return s.node }
func (s *c11SI) GetNodeSLO() *slov1alpha1.NodeSLO      { return s.nodeSLO }

type c11Metrics struct {
	podUse  map[string]*c11Pod // by UID
	nodeUse *float64           // cores
	be      map[string]float64 // node BE cpu metrics by allocation kind (milli-cores)
}

type c11Result struct {
	kind  string
	props map[string]string
	has   bool
	val   float64
}

func (r *c11Result) GetKind() string                    { return r.kind }
func (r *c11Result) GetProperties() map[string]string   { return r.props }
func (r *c11Result) AddSeries(promstorage.Series) error { return nil }
func (r *c11Result) TimeRangeDuration() time.Duration   { return time.Second }
func (r *c11Result) Count() int {
	if r.has {
		return 1
	}
	return 0
}
func (r *c11Result) Value(metriccache.AggregationType) (float64, error) {
	if !r.has {
		return 0, fmt.Errorf("metric input is empty")
	}
	return r.val, nil
}

func (m *c11Metrics) New(meta metriccache.MetricMeta) metriccache.AggregateResult {
	r := &c11Result{kind: meta.GetKind(), props: meta.GetProperties()}
	switch metriccache.MetricKind(r.kind) {
	case metriccache.PodMetricCPUUsage:
		if p := m.podUse[r.props[string(metriccache.MetricPropertyPodUID)]]; p != nil && p.HasMetric {
			r.has, r.val = true, float64(p.Metric)/8
		}
	case metriccache.NodeMetricCPUUsage:
		if m.nodeUse != nil {
			r.has, r.val = true, *m.nodeUse
		}
	case metriccache.NodeMetricBE:
		if m.be != nil && r.props[string(metriccache.MetricPropertyBEResource)] == string(metriccache.BEResourceCPU) {
			if v, ok := m.be[r.props[string(metriccache.MetricPropertyBEAllocation)]]; ok {
				r.has, r.val = true, v
			}
		}
	}
	return r
}

type c11MC struct{ metriccache.MetricCache }
type c11Querier struct{}

func (c *c11MC) Querier(startTime, endTime time.Time) (metriccache.Querier, error) {
	return c11Querier{}, nil
}
func (c11Querier) Query(metriccache.MetricMeta, *metriccache.QueryHints, metriccache.MetricResult) error {
	return nil
}
func (c11Querier) QueryAndClose(metriccache.MetricMeta, *metriccache.QueryHints, metriccache.MetricResult) error {
	return nil
}
func (c11Querier) Close() {}

type c11Call struct {
	Pod     *c11Pod
	Feature string
	OK      bool
	Asked   bool // IsPodEvicted call (recorded only when it answered true)
}

type c11Exec struct {
	byKey   map[string]*c11Pod
	calls   []c11Call
	nCalls  map[int]int
	done    map[int]bool
	mark    bool
	garbled []string
}

func (e *c11Exec) Evict(pod *corev1.Pod, node *corev1.Node, releaseReason string, message string) bool {
	p := e.byKey[pod.Namespace+"/"+pod.Name]
	feat := ""
	if strings.HasPrefix(message, qosmanagerUtil.EvictReasonPrefix) {
		feat = strings.TrimPrefix(message, qosmanagerUtil.EvictReasonPrefix)
		if i := strings.Index(feat, ","); i >= 0 {
			feat = feat[:i]
		}
	}
	if p == nil || feat == "" {
		e.garbled = append(e.garbled, fmt.Sprintf("Evict(%s/%s,%q)", pod.Namespace, pod.Name, message))
		return false
	}
	res := true
	if n := e.nCalls[p.Idx]; n < len(p.outcomes) {
		res = p.outcomes[n]
	} else if len(p.outcomes) > 0 {
		res = p.outcomes[len(p.outcomes)-1]
	}
	e.nCalls[p.Idx]++
	if res {
		e.done[p.Idx] = true
	}
	e.calls = append(e.calls, c11Call{Pod: p, Feature: feat, OK: res})
	return res
}

func (e *c11Exec) IsPodEvicted(pod *corev1.Pod) bool {
	p := e.byKey[pod.Namespace+"/"+pod.Name]
	if p == nil {
		e.garbled = append(e.garbled, fmt.Sprintf("IsPodEvicted(%s/%s)", pod.Namespace, pod.Name))
		return false
	}
	res := p.alreadyEvic || (e.mark && e.done[p.Idx])
	if res {
		e.calls = append(e.calls, c11Call{Pod: p, Asked: true, OK: true})
	}
	return res
}

// ---------------------------------------------------------------- shared scenario

const c11Unit = 125 // one unit of cpu = 125 milli-cores = one eighth of a core (exact in floating point)

type c11Scene struct {
	pods   []*c11Pod
	cfg    *slov1alpha1.ResourceThresholdStrategy
	node   *corev1.Node
	capMil int64
	met    *c11Metrics
	m      *cpuEvictor
	desc   []string
}

func c11I64(v int64) *int64 { return &v }

func c11GenScene(t *rapid.T) *c11Scene { return c11GenSceneOpt(t, c11ModeNormal) }

const (
	c11ModeNormal  = iota
	c11ModeLarge   // 13-40 pods with long runs of ties
	c11ModeHelpers // pods with extra containers that declare no request of the resource, amounts in single units
)

// large: 13-40 pods, nearly all eligible, two or three distinct priorities and mostly no sub-priority label / eviction
// priority, so that long runs of candidates tie on every key but usage / request
func c11GenSceneOpt(t *rapid.T, mode int) *c11Scene {
	large := mode == c11ModeLarge

	s := &c11Scene{}
	thUsed := rapid.SampledFrom([]int32{5999, 5999, 7999, 9999, 3999, 5500, 0, -1, 100000}).Draw(t, "evictEnabledPriorityThreshold")
	thAlloc := rapid.SampledFrom([]int32{5999, 5999, 7999, 7999, 3999, 5500, 7500, 0}).Draw(t, "allocatableEvictPriorityThreshold")
	pool := []int32{0, 1, 100, 3000, 3500, 3999, 4000, 5000, 5500, 5999, 6000, 7000, 7500, 7999, 8000, 9000, 9500, 9999,
		thUsed - 1, thUsed, thUsed, thUsed + 1, thAlloc - 1, thAlloc, thAlloc, thAlloc + 1}
	friendlyCase := rapid.IntRange(0, 3).Draw(t, "mostlyEligiblePods") > 0
	lowTh := thUsed
	if thAlloc < lowTh {
		lowTh = thAlloc
	}
	friendlyPrio := []int32{lowTh, lowTh, lowTh - 1, lowTh - 500, thAlloc, thUsed, 5500, 7500}
	if large {
		friendlyPrio = []int32{lowTh, lowTh - 1, lowTh}
		if rapid.Bool().Draw(t, "threePriorities") {
			friendlyPrio = append(friendlyPrio, lowTh-500)
		}
		s.pods = rapid.SliceOfN(rapid.Custom(func(t *rapid.T) *c11Pod {
			p := c11GenPod(t, pool, friendlyPrio, true, c11Unit)
			if rapid.IntRange(0, 5).Draw(t, "noSubPriorityLabel") > 0 {
				p.PrioLabel = c11Opt{}
			}
			if rapid.IntRange(0, 5).Draw(t, "noEvictionPriority") > 0 {
				p.EvictPrio = c11Opt{}
			}
			if rapid.IntRange(0, 7).Draw(t, "hasUsageSample") > 0 && !p.HasMetric {
				p.HasMetric, p.Metric = true, rapid.Int64Range(0, 16).Draw(t, "usage")
			}
			return p
		}), 13, 40).Draw(t, "manyPods")
	} else if mode == c11ModeHelpers {
		s.pods = rapid.SliceOfN(rapid.Custom(func(t *rapid.T) *c11Pod {
			p := c11GenPod(t, pool, friendlyPrio, true, 1)
			// helper containers (log agent, injected sidecar ...) that declare no request of the evicted resource at all
			if rapid.IntRange(0, 4).Draw(t, "hasHelperContainers") > 0 {
				n := rapid.IntRange(1, 2).Draw(t, "helperContainers")
				for i := 0; i < n; i++ {
					h := map[corev1.ResourceName]int64{}
					if rapid.Bool().Draw(t, "helperDeclaresOtherResource") {
						h[apiext.BatchMemory] = rapid.Int64Range(0, 4).Draw(t, "helperOtherAmount")
					}
					if rapid.Bool().Draw(t, "helperFirst") {
						p.Containers = append([]map[corev1.ResourceName]int64{h}, p.Containers...)
					} else {
						p.Containers = append(p.Containers, h)
					}
				}
			}
			if rapid.IntRange(0, 7).Draw(t, "hasUsageSample") > 0 && !p.HasMetric {
				p.HasMetric, p.Metric = true, rapid.Int64Range(0, 8).Draw(t, "usage")
			}
			return p
		}), 2, 8).Draw(t, "podsWithHelpers")
	} else {
		s.pods = rapid.SliceOfN(rapid.Custom(func(t *rapid.T) *c11Pod { return c11GenPod(t, pool, friendlyPrio, friendlyCase, c11Unit) }), 1, 8).Draw(t, "pods")
	}
	if rapid.IntRange(0, 24).Draw(t, "emptyNode") == 24 {
		s.pods = nil
	}
	for i, p := range s.pods {
		p.build(i)
	}
	cfg := &slov1alpha1.ResourceThresholdStrategy{}
	en := rapid.IntRange(0, 29).Draw(t, "enable") > 0
	cfg.Enable = &en
	// CPUEvict (by usage)
	if rapid.IntRange(0, 14).Draw(t, "hasUsedThreshold") > 0 {
		th := rapid.SampledFrom([]int64{30, 50, 70, 0, 90, 100}).Draw(t, "cpuEvictThresholdPercent")
		cfg.CPUEvictThresholdPercent = &th
		if th > 0 && rapid.Bool().Draw(t, "hasLower") {
			cfg.CPUEvictLowerPercent = c11I64(rapid.Int64Range(0, th-1).Draw(t, "cpuEvictLowerPercent"))
		}
	}
	if rapid.IntRange(0, 14).Draw(t, "hasUsedPrioThreshold") > 0 {
		cfg.EvictEnabledPriorityThreshold = &thUsed
	}
	// CPUAllocatableEvict
	if rapid.IntRange(0, 14).Draw(t, "hasAllocThreshold") > 0 {
		th := rapid.SampledFrom([]int64{20, 50, 1, 80, 0, 100, 150}).Draw(t, "cpuAllocatableEvictThresholdPercent")
		cfg.CPUAllocatableEvictThresholdPercent = &th
		if th > 0 {
			cfg.CPUAllocatableEvictLowerPercent = c11I64(rapid.Int64Range(0, th-1).Draw(t, "cpuAllocatableEvictLowerPercent"))
		}
		cfg.AllocatableEvictPriorityThreshold = &thAlloc
	}
	// BECPUEvict (by satisfaction)
	if rapid.IntRange(0, 14).Draw(t, "hasSatisfaction") > 0 {
		lower := rapid.Int64Range(1, 60).Draw(t, "cpuEvictBESatisfactionLowerPercent")
		cfg.CPUEvictBESatisfactionLowerPercent = &lower
		cfg.CPUEvictBESatisfactionUpperPercent = c11I64(rapid.Int64Range(lower, 99).Draw(t, "cpuEvictBESatisfactionUpperPercent"))
		if rapid.Bool().Draw(t, "hasBEUsageThreshold") {
			cfg.CPUEvictBEUsageThresholdPercent = c11I64(rapid.Int64Range(0, 100).Draw(t, "cpuEvictBEUsageThresholdPercent"))
		}
		if rapid.IntRange(0, 3).Draw(t, "byAllocatablePolicy") == 0 {
			cfg.CPUEvictPolicy = slov1alpha1.EvictByAllocatablePolicy
		}
	}
	s.cfg = cfg
	// node: capacity 100 units so that one percent is one unit of pod usage
	s.capMil = 100 * c11Unit
	alloc := corev1.ResourceList{corev1.ResourceCPU: *resource.NewMilliQuantity(s.capMil, resource.DecimalSI)}
	for _, r := range []corev1.ResourceName{apiext.BatchCPU, apiext.MidCPU} {
		switch rapid.IntRange(0, 5).Draw(t, "alloc-"+string(r)) {
		case 0: // not reported
		case 1:
			alloc[r] = *resource.NewQuantity(0, resource.DecimalSI)
		default:
			allocUnit := int64(c11Unit)
			if mode == c11ModeHelpers {
				allocUnit = 1 // requests are drawn in single milli-cores in this mode
			}
			alloc[r] = *resource.NewQuantity(rapid.Int64Range(1, 14).Draw(t, "allocAmount-"+string(r))*allocUnit, resource.DecimalSI)
		}
	}
	if rapid.IntRange(0, 3).Draw(t, "smallNativeAllocatable") == 0 {
		alloc[corev1.ResourceCPU] = *resource.NewMilliQuantity(rapid.Int64Range(1, 30).Draw(t, "allocCPU")*c11Unit, resource.DecimalSI)
	}
	s.node = &corev1.Node{ObjectMeta: metav1.ObjectMeta{Name: "node"}, Status: corev1.NodeStatus{
		Capacity:    corev1.ResourceList{corev1.ResourceCPU: *resource.NewMilliQuantity(s.capMil, resource.DecimalSI)},
		Allocatable: alloc}}
	s.met = &c11Metrics{podUse: map[string]*c11Pod{}}
	if rapid.IntRange(0, 14).Draw(t, "hasNodeMetric") > 0 {
		pct := rapid.Int64Range(0, 110).Draw(t, "nodeCPUUsedPercent")
		if cfg.CPUEvictThresholdPercent != nil {
			if d := rapid.SampledFrom([]int64{5, 10, 20, 1, 0, 2, 30, -1, -3, 1000}).Draw(t, "usageOverThreshold"); d != 1000 {
				pct = *cfg.CPUEvictThresholdPercent + d
			}
		}
		if pct < 0 {
			pct = 0
		}
		if pct > 110 {
			pct = 110
		}
		v := float64(pct) / 8 // cores
		s.met.nodeUse = &v
	}
	// best-effort aggregate metrics: request near what the BE pods ask, real limit a fraction of it, usage a fraction of the limit
	if rapid.IntRange(0, 14).Draw(t, "hasBEMetrics") > 0 {
		var sum int64
		for _, p := range s.pods {
			if p.isBE() {
				sum += p.sumReq(apiext.BatchCPU)
			}
		}
		req := float64(sum)
		if rapid.IntRange(0, 3).Draw(t, "beRequestIndependent") == 0 {
			req = float64(rapid.Int64Range(0, 40).Draw(t, "beRequest") * c11Unit)
		}
		sat := rapid.SampledFrom([]int64{20, 40, 10, 60, 50, 80, 100, 0, 130}).Draw(t, "beSatisfactionPercent")
		if cfg.CPUEvictBESatisfactionLowerPercent != nil {
			if d := rapid.SampledFrom([]int64{-10, -1, 0, -25, 1, 1000}).Draw(t, "beSatisfactionVsLower"); d != 1000 {
				sat = *cfg.CPUEvictBESatisfactionLowerPercent + d
			}
		}
		if sat < 0 {
			sat = 0
		}
		limit := req * float64(sat) / 100
		usage := limit * float64(rapid.SampledFrom([]int64{100, 95, 90, 80, 50, 0}).Draw(t, "beUsagePercentOfLimit")) / 100
		s.met.be = map[string]float64{string(metriccache.BEResourceAllocationRequest): req, string(metriccache.BEResourceAllocationRealLimit): limit,
			string(metriccache.BEResourceAllocationUsage): usage}
	}
	si := &c11SI{node: s.node, nodeSLO: &slov1alpha1.NodeSLO{Spec: slov1alpha1.NodeSLOSpec{ResourceUsedThresholdWithBE: cfg}}}
	for _, p := range s.pods {
		s.met.podUse[string(p.pod.UID)] = p
		si.pods = append(si.pods, &statesinformer.PodMeta{Pod: p.pod})
	}
	metriccache.DefaultAggregateResultFactory = s.met
	s.m = &cpuEvictor{statesInformer: si, metricCache: &c11MC{}, metricCollectInterval: time.Second}

	pi := func(x *int64) string {
		if x == nil {
			return "unset"
		}
		return fmt.Sprint(*x)
	}
	pi32 := func(x *int32) string {
		if x == nil {
			return "unset"
		}
		return fmt.Sprint(*x)
	}
	nu := "none"
	if s.met.nodeUse != nil {
		nu = fmt.Sprintf("%v cores", *s.met.nodeUse)
	}
	s.desc = append(s.desc, fmt.Sprintf("thresholds: enable=%v cpuEvict=%s/lower %s prio<=%s; cpuAllocatableEvict=%s/lower %s prio<=%s; BE satisfaction lower=%s upper=%s usage>=%s policy=%q",
		en, pi(cfg.CPUEvictThresholdPercent), pi(cfg.CPUEvictLowerPercent), pi32(cfg.EvictEnabledPriorityThreshold),
		pi(cfg.CPUAllocatableEvictThresholdPercent), pi(cfg.CPUAllocatableEvictLowerPercent), pi32(cfg.AllocatableEvictPriorityThreshold),
		pi(cfg.CPUEvictBESatisfactionLowerPercent), pi(cfg.CPUEvictBESatisfactionUpperPercent), pi(cfg.CPUEvictBEUsageThresholdPercent), cfg.CPUEvictPolicy))
	s.desc = append(s.desc, fmt.Sprintf("node: cpu capacity=%dm used=%s allocatable=%s BE metrics (milli)=%v", s.capMil, nu, c11RL(alloc), s.met.be))
	for _, p := range s.pods {
		s.desc = append(s.desc, p.String())
	}
	return s
}

func c11RL(rl corev1.ResourceList) string {
	var ks []string
	for k := range rl {
		ks = append(ks, string(k))
	}
	sort.Strings(ks)
	var b strings.Builder
	b.WriteString("{")
	for i, k := range ks {
		if i > 0 {
			b.WriteString(" ")
		}
		q := rl[corev1.ResourceName(k)]
		fmt.Fprintf(&b, "%s:%s", k, q.String())
	}
	b.WriteString("}")
	return b.String()
}

func (s *c11Scene) describe(extra ...string) string {
	return "\n  " + strings.Join(append(append([]string{}, s.desc...), extra...), "\n  ")
}

func c11Names(l []*qosmanagerUtil.PodEvictInfo) []string {
	out := make([]string, len(l))
	for i, x := range l {
		out[i] = x.Pod.Name
	}
	return out
}

// ---------------------------------------------------------------- (1) victim lists: eligibility and published order

func TestVerifC11CPULists(t *testing.T) { c11RunLists(t, "cpuLists", c11ModeNormal) }

// the same oracle on candidate lists of 13-40 pods with long runs of ties on the priority keys
func TestVerifC11CPUListsLarge(t *testing.T) { c11RunLists(t, "cpuListsLarge", c11ModeLarge) }

// the same oracle on pods with helper containers that declare no request of the resource (a pod's request is the sum
// over the containers that declare one)
func TestVerifC11CPUListsHelpers(t *testing.T) { c11RunLists(t, "cpuListsHelpers", c11ModeHelpers) }

func c11RunLists(t *testing.T, unit string, mode int) {
	rec := vk.New(t, "C11", unit)
	saved := metriccache.DefaultAggregateResultFactory
	defer func() { metriccache.DefaultAggregateResultFactory = saved }()
	rapid.Check(t, func(t *rapid.T) {
		c := rec.Begin()
		defer c.End()
		s := c11GenSceneOpt(t, mode)
		byName := map[string]*c11Pod{}
		for _, p := range s.pods {
			byName[p.Name] = p
		}
		metas := s.m.statesInformer.GetAllPods()
		thUsed, thAlloc := int32(5999), int32(5999)
		if s.cfg.EvictEnabledPriorityThreshold != nil {
			thUsed = *s.cfg.EvictEnabledPriorityThreshold
		} else {
			s.cfg.EvictEnabledPriorityThreshold = &thUsed // the list builders are only reached with a valid config
		}
		if s.cfg.AllocatableEvictPriorityThreshold != nil {
			thAlloc = *s.cfg.AllocatableEvictPriorityThreshold
		} else {
			s.cfg.AllocatableEvictPriorityThreshold = &thAlloc
		}

		type listCase struct {
			name      string
			policy    string
			got       []*qosmanagerUtil.PodEvictInfo
			allowed   func(p *c11Pod) bool
			mustList  func(p *c11Pod) bool
			threshold int32
			sub       func(p *c11Pod) int64 // secondary key (bigger first); nil for the BE list
		}
		lists := []listCase{
			{name: "BE", policy: string(features.BECPUEvict),
				got:      s.m.getBEPodEvictInfoAndSort(string(features.BECPUEvict), s.cfg, metas),
				allowed:  func(p *c11Pod) bool { return p.isBE() && p.allows(string(features.BECPUEvict)) },
				mustList: func(p *c11Pod) bool { return true }},
			{name: "byUsed", policy: string(features.CPUEvict), threshold: thUsed,
				got:      s.m.getPodEvictInfoAndSortByUsed(string(features.CPUEvict), s.cfg, metas),
				allowed:  func(p *c11Pod) bool { return p.allowedByPriority(string(features.CPUEvict), thUsed) },
				mustList: func(p *c11Pod) bool { return p.HasMetric }, // a pod without a usage sample cannot be ranked and is left out
				sub:      func(p *c11Pod) int64 { return p.Metric }},
			{name: "byAllocatable", policy: string(features.CPUAllocatableEvict), threshold: thAlloc,
				got:      s.m.getPodEvictInfoAndSortByAllocatable(string(features.CPUAllocatableEvict), s.cfg, metas),
				allowed:  func(p *c11Pod) bool { return p.allowedByPriority(string(features.CPUAllocatableEvict), thAlloc) },
				mustList: func(p *c11Pod) bool { return p.HasMetric },
				sub:      func(p *c11Pod) int64 { _, v := p.cpuRequest(); return v }},
		}
		nListed, nExcluded := 0, 0
		maxListed, maxTieRun := 0, 0
		sawAtThreshold, sawAboveBy1, sawMalformedPolicy, sawOtherPolicy, sawEvictPrioOrder, sawUsageOrder, sawBEIgnoresEvictPrio := false, false, false, false, false, false, false
		for _, lc := range lists {
			where := fmt.Sprintf("list %s (policy %s) = %v", lc.name, lc.policy, c11Names(lc.got))
			seen := map[string]bool{}
			var order []*c11Pod
			for _, info := range lc.got {
				p := byName[info.Pod.Name]
				if p == nil || info.Pod != p.pod {
					c.Violation(t, "list:unknown-pod", "%s holds a pod that was not given%s", where, s.describe())
					return
				}
				if seen[p.Name] {
					c.Violation(t, "list:pod-listed-twice", "%s lists %s twice%s", where, p.Name, s.describe())
					return
				}
				seen[p.Name] = true
				if !lc.allowed(p) {
					why := "policy does not allow it"
					switch {
					case lc.sub == nil && !p.isBE():
						why = "not best-effort"
					case !p.allows(lc.policy):
						why = "pod opted out of this eviction policy (annotation " + fmt.Sprintf("%q", p.PolicyAnn.Value) + ")"
					case lc.sub != nil && !p.active():
						why = "pod is not active"
					case lc.sub != nil && p.prio() > lc.threshold:
						why = fmt.Sprintf("priority %d is above the threshold %d", p.prio(), lc.threshold)
					case lc.sub != nil && !p.evictEnabled():
						why = "eviction is not enabled for the pod"
					}
					c.Violation(t, "list:ineligible-pod-listed", "%s lists %s: %s%s", where, p.Name, why, s.describe())
					return
				}
				order = append(order, p)
			}
			for _, p := range s.pods {
				if lc.allowed(p) {
					if lc.sub != nil && p.prio() == lc.threshold {
						sawAtThreshold = true
					}
					if lc.mustList(p) && !seen[p.Name] {
						c.Violation(t, "list:eligible-pod-missing", "%s leaves out %s although the policy allows it%s", where, p.Name, s.describe())
						return
					}
				} else {
					nExcluded++
					if lc.sub != nil && p.prio() == lc.threshold+1 {
						sawAboveBy1 = true
					}
					if p.PolicyAnn.Set && !p.PolicyAnn.OK {
						sawMalformedPolicy = true
					}
					if p.PolicyAnn.Set && p.PolicyAnn.OK && !p.allows(lc.policy) {
						sawOtherPolicy = true
					}
				}
			}
			nListed += len(order)
			if len(order) > maxListed {
				maxListed = len(order)
			}
			if lc.sub != nil && len(order) > 12 { // longest run of neighbours equal on eviction priority, priority and sub-priority
				run := 1
				for i := 1; i < len(order); i++ {
					a, b := order[i-1], order[i]
					if a.evictionPriority() == b.evictionPriority() && a.prio() == b.prio() && a.labelPriority() == b.labelPriority() {
						run++
					} else {
						run = 1
					}
					if run > maxTieRun {
						maxTieRun = run
					}
				}
			}
			anyNilPrio := false
			for _, p := range order {
				if p.Prio == nil {
					anyNilPrio = true
				}
			}
			for i := 0; i < len(order); i++ {
				for j := i + 1; j < len(order); j++ {
					a, b := order[i], order[j]
					if lc.sub == nil {
						// best-effort list: priority ascending, then usage/request ratio descending
						// (a pod without batch-cpu request or without usage sample has ratio 0)
						if anyNilPrio {
							continue // a pod without spec.priority makes the documented comparison partial; not asserted
						}
						if *a.Prio != *b.Prio {
							if *a.Prio > *b.Prio {
								c.Violation(t, "list:order-priority", "%s: %s (priority %d) comes before %s (priority %d)%s", where, a.Name, *a.Prio, b.Name, *b.Prio, s.describe())
								return
							}
							continue
						}
						ua, ra := a.Metric*c11Unit, a.sumReq(apiext.BatchCPU) // milli used, milli requested
						ub, rb := b.Metric*c11Unit, b.sumReq(apiext.BatchCPU)
						if ra <= 0 {
							ua, ra = 0, 1
						}
						if rb <= 0 {
							ub, rb = 0, 1
						}
						// ua/ra < ub/rb, exactly
						if ua*rb < ub*ra {
							c.Violation(t, "list:order-usage", "%s: same priority, but %s (uses %dm of %dm) comes before %s (uses %dm of %dm)%s", where, a.Name, ua, ra, b.Name, ub, rb, s.describe())
							return
						}
						if ua*rb != ub*ra {
							sawUsageOrder = true
						}
						if a.evictionPriority() > b.evictionPriority() {
							sawBEIgnoresEvictPrio = true
						}
						continue
					}
					if ea, eb := a.evictionPriority(), b.evictionPriority(); ea != eb {
						if ea > eb {
							c.Violation(t, "list:order-eviction-priority", "%s: %s (eviction priority %d) comes before %s (eviction priority %d)%s", where, a.Name, ea, b.Name, eb, s.describe())
							return
						}
						sawEvictPrioOrder = true
						continue
					}
					if pa, pb := a.prio(), b.prio(); pa != pb {
						if pa > pb {
							c.Violation(t, "list:order-priority", "%s: %s (priority %d) comes before %s (priority %d)%s", where, a.Name, pa, b.Name, pb, s.describe())
							return
						}
						continue
					}
					// same eviction priority and priority: koordinator.sh/priority ascending, then usage / request descending.
					// The statement names only usage/request, the code comment also the label: flagged only if wrong under both.
					if lc.sub(a) < lc.sub(b) && a.labelPriority() >= b.labelPriority() {
						c.Violation(t, "list:order-usage", "%s: same eviction priority and priority, sub-priority %d vs %d, but %s (amount %d) comes before %s (amount %d)%s",
							where, a.labelPriority(), b.labelPriority(), a.Name, lc.sub(a), b.Name, lc.sub(b), s.describe())
						return
					}
					if lc.sub(a) != lc.sub(b) {
						sawUsageOrder = true
					}
				}
			}
		}
		c.ClassIf(len(s.pods) == 0, "no-pods")
		for _, info := range lists[2].got {
			if q := byName[info.Pod.Name]; q != nil {
				if rn, _ := q.cpuRequest(); q.hasHelperFor(rn) {
					c.Class("by-request-list-holds-pod-with-request-less-helper-container")
				}
			}
		}
		c.ClassIf(maxListed > 12, "a-list-with-more-than-12-candidates")
		c.ClassIf(maxTieRun >= 4, "list>12-with-4-or-more-candidates-tied-on-all-priority-keys")
		c.ClassIf(nListed >= 2, "two-or-more-listed")
		c.ClassIf(nExcluded > 0, "some-pod-excluded")
		c.ClassIf(sawAtThreshold, "priority-equals-threshold-listed")
		c.ClassIf(sawAboveBy1, "priority-threshold-plus-1-excluded")
		c.ClassIf(sawMalformedPolicy, "malformed-policy-annotation-excluded")
		c.ClassIf(sawOtherPolicy, "opted-out-by-policy-list")
		c.ClassIf(sawEvictPrioOrder, "ordered-by-eviction-priority")
		c.ClassIf(sawUsageOrder, "ordered-by-usage-or-request")
		c.ClassIf(sawBEIgnoresEvictPrio, "BE-list-order-against-eviction-priority-annotation(not asserted)")
		if nListed >= 2 && nExcluded > 0 {
			c.NonTrivial(s.describe())
		}
		if c.WantSample() {
			smp := map[string]any{"scene": s.desc}
			for _, lc := range lists {
				smp[lc.name] = c11Names(lc.got)
			}
			c.Sample(smp)
		}
	})
}

// ---------------------------------------------------------------- (2) cpuEvict() end to end

type c11E2ETask struct {
	feature string
	target  map[corev1.ResourceName]int64 // in Quantity milli-units
	classes map[string]bool               // allocatable task: priority classes whose requests the task counts
}

var c11CPURes = []corev1.ResourceName{corev1.ResourceCPU, apiext.BatchCPU, apiext.MidCPU}

func TestVerifC11CPUEndToEnd(t *testing.T) { c11RunE2E(t, "cpuEndToEnd", c11ModeNormal) }

// end to end with helper containers and single-unit amounts: the victims' real requests often hit the target exactly
func TestVerifC11CPUEndToEndHelpers(t *testing.T) { c11RunE2E(t, "cpuEndToEndHelpers", c11ModeHelpers) }

func c11RunE2E(t *testing.T, unit string, mode int) {
	rec := vk.New(t, "C11", unit)
	savedFactory := metriccache.DefaultAggregateResultFactory
	feats := []featuregate.Feature{features.BECPUEvict, features.CPUAllocatableEvict, features.CPUEvict}
	savedGates := map[string]bool{}
	for _, f := range feats {
		savedGates[string(f)] = features.DefaultKoordletFeatureGate.Enabled(f)
	}
	defer func() {
		metriccache.DefaultAggregateResultFactory = savedFactory
		_ = features.DefaultMutableKoordletFeatureGate.SetFromMap(savedGates)
	}()
	rapid.Check(t, func(t *rapid.T) {
		c := rec.Begin()
		defer c.End()
		s := c11GenSceneOpt(t, mode)
		gates := map[string]bool{}
		var on []featuregate.Feature
		for _, f := range feats {
			gates[string(f)] = rapid.IntRange(0, 9).Draw(t, "gate-"+string(f)) > 0
			if only := os.Getenv("VERIF_C11_FEATURES"); only != "" && !strings.Contains(","+only+",", ","+string(f)+",") {
				gates[string(f)] = false // development aid: look at one feature in isolation (never set by the driver)
			}
			if gates[string(f)] {
				on = append(on, f)
			}
		}
		if err := features.DefaultMutableKoordletFeatureGate.SetFromMap(gates); err != nil {
			t.Fatalf("cannot set feature gates: %v", err)
		}
		ex := &c11Exec{byKey: map[string]*c11Pod{}, nCalls: map[int]int{}, done: map[int]bool{}, mark: rapid.Bool().Draw(t, "executorRemembersEvictions")}
		failBias := rapid.IntRange(0, 3).Draw(t, "failBias")
		for _, p := range s.pods {
			ex.byKey["ns/"+p.Name] = p
			p.alreadyEvic = rapid.IntRange(0, 7).Draw(t, "alreadyEvicted") == 7
			for i := 0; i < 3; i++ {
				p.outcomes = append(p.outcomes, rapid.IntRange(0, 3).Draw(t, "evictFails") >= failBias)
			}
		}
		s.desc = s.desc[:2]
		for _, p := range s.pods {
			s.desc = append(s.desc, p.String()+fmt.Sprintf(" evictOutcomes=%v", p.outcomes))
		}
		s.m.evictExecutor = ex

		// the computed targets, as the agent computes them for this input (taken as given by the property)
		var tasks []*c11E2ETask
		nodeSLO := s.m.statesInformer.GetNodeSLO()
		if s.cfg.Enable != nil && *s.cfg.Enable {
			for _, f := range on {
				task, err := s.m.buildEvictTask(f, nodeSLO, s.node)
				if err != nil || task == nil {
					continue
				}
				et := &c11E2ETask{feature: string(f), target: map[corev1.ResourceName]int64{}, classes: map[string]bool{}}
				for r, q := range task.ToReleaseResource {
					et.target[r] = q.MilliValue()
					switch r {
					case apiext.BatchCPU:
						et.classes["koord-batch"] = true
					case apiext.MidCPU:
						et.classes["koord-mid"] = true
					}
				}
				tasks = append(tasks, et)
			}
		}
		var tdesc []string
		for _, tk := range tasks {
			var ks []string
			for r := range tk.target {
				ks = append(ks, fmt.Sprintf("%s:%d", r, tk.target[r]))
			}
			sort.Strings(ks)
			tdesc = append(tdesc, fmt.Sprintf("computed target of %s (1/1000 of the resource's unit): {%s}", tk.feature, strings.Join(ks, " ")))
		}

		s.m.cpuEvict()

		var cdesc []string
		for _, cl := range ex.calls {
			if cl.Asked {
				cdesc = append(cdesc, fmt.Sprintf("IsPodEvicted(%s)=true", cl.Pod.Name))
			} else {
				cdesc = append(cdesc, fmt.Sprintf("Evict(%s by %s)=%v", cl.Pod.Name, cl.Feature, cl.OK))
			}
		}
		describe := func() string {
			return s.describe(append(append([]string{fmt.Sprintf("feature gates on: %v; executor remembers its evictions=%v", on, ex.mark)}, tdesc...), "calls: "+strings.Join(cdesc, " "))...)
		}
		if len(ex.garbled) > 0 {
			c.Violation(t, "e2e:unknown-pod-or-reason", "executor got calls that name no generated pod / feature: %v%s", ex.garbled, describe())
			return
		}

		// credit of a victim towards a task's target, in Quantity milli-units (batch-cpu / mid-cpu are counted in
		// milli-cores as plain numbers, so one requested milli-core is 1000 milli-units; cpu is a real quantity):
		// `lo` is what the task's own published accounting certainly counts, `hi` whether the removal frees any r at all
		lo := func(tk *c11E2ETask, p *c11Pod, r corev1.ResourceName) int64 {
			switch tk.feature {
			case string(features.BECPUEvict):
				if r == apiext.BatchCPU {
					return p.sumReq(apiext.BatchCPU) * 1000
				}
			case string(features.CPUAllocatableEvict):
				rn, v := p.cpuRequest()
				if rn == r && tk.classes[p.class()] {
					if r == corev1.ResourceCPU {
						return v
					}
					return v * 1000
				}
			case string(features.CPUEvict):
				if r == corev1.ResourceCPU && p.HasMetric {
					return p.Metric * c11Unit
				}
			}
			return 0
		}
		hiPositive := func(tk *c11E2ETask, p *c11Pod, r corev1.ResourceName) (positive, unknown bool) {
			switch tk.feature {
			case string(features.BECPUEvict), string(features.CPUAllocatableEvict):
				rn, v := p.cpuRequest()
				if rn == r && v > 0 {
					return true, false
				}
				return r == apiext.BatchCPU && p.sumReq(apiext.BatchCPU) > 0, false
			}
			if r != corev1.ResourceCPU {
				return false, false
			}
			if !p.HasMetric {
				return false, true // usage unknown: cannot say it frees nothing
			}
			return p.Metric > 0, false
		}
		taskOf := map[string]*c11E2ETask{}
		for _, tk := range tasks {
			taskOf[tk.feature] = tk
		}
		var victims []*c11Pod
		isVictim := map[int]bool{}
		succeeded := map[int]bool{}
		remaining := func(tk *c11E2ETask, r corev1.ResourceName) int64 {
			rem := tk.target[r]
			for _, v := range victims {
				rem -= lo(tk, v, r)
			}
			return rem
		}
		sawFail, sawPending, sawNoMetricEvicted, sawFreesNothingOwn := false, false, false, false
		var deferred []func() bool
		for _, cl := range ex.calls {
			p := cl.Pod
			if cl.Asked {
				if !isVictim[p.Idx] {
					isVictim[p.Idx] = true
					victims = append(victims, p)
					sawPending = true
				}
				continue
			}
			var why string
			switch cl.Feature {
			case string(features.BECPUEvict):
				if !p.isBE() {
					why = "it is not best-effort"
				}
			case string(features.CPUEvict), string(features.CPUAllocatableEvict):
				th := s.cfg.EvictEnabledPriorityThreshold
				if cl.Feature == string(features.CPUAllocatableEvict) {
					th = s.cfg.AllocatableEvictPriorityThreshold
				}
				switch {
				case th == nil:
					why = "no priority threshold is configured"
				case p.prio() > *th:
					why = fmt.Sprintf("its priority %d is above the threshold %d", p.prio(), *th)
				case !p.evictEnabled():
					why = "eviction is not enabled for it"
				case !p.active():
					why = "it is not active"
				}
			default:
				why = "unknown feature"
			}
			if why == "" && !p.allows(cl.Feature) {
				why = fmt.Sprintf("it opted out of this policy (annotation %q)", p.PolicyAnn.Value)
			}
			if why == "" && !gates[cl.Feature] {
				why = "the feature is switched off"
			}
			if why != "" {
				c.Violation(t, "e2e:ineligible-victim", "%s evicted %s although %s%s", cl.Feature, p.Name, why, describe())
				return
			}
			if p.alreadyEvic {
				c.Violation(t, "e2e:already-evicted-pod-evicted-again", "%s evicted %s which is already evicted%s", cl.Feature, p.Name, describe())
				return
			}
			if succeeded[p.Idx] {
				c.Violation(t, "e2e:pod-evicted-twice", "%s evicted %s a second time%s", cl.Feature, p.Name, describe())
				return
			}
			tk := taskOf[cl.Feature]
			if tk == nil {
				c.Violation(t, "e2e:evict-without-target", "%s evicted %s although it computed no release target%s", cl.Feature, p.Name, describe())
				return
			}
			met := true
			for r, v := range tk.target {
				if v > 0 && remaining(tk, r) > 0 {
					met = false
				}
			}
			if met {
				c.Violation(t, "e2e:after-target-met", "%s evicted %s although its target was already covered by the victims so far%s", cl.Feature, p.Name, describe())
				return
			}
			helps := func(tj *c11E2ETask) bool {
				for _, r := range c11CPURes {
					if tj.target[r] > 0 && remaining(tj, r) > 0 {
						pos, unknown := hiPositive(tj, p, r)
						if unknown {
							sawNoMetricEvicted = true
						}
						if pos || unknown {
							return true
						}
					}
				}
				return false
			}
			if !helps(tk) {
				sawFreesNothingOwn = true
				any := false
				for _, tj := range tasks {
					if helps(tj) {
						any = true
					}
				}
				if !any {
					feat, name := cl.Feature, p.Name
					var short []string
					for _, r := range c11CPURes {
						if tk.target[r] > 0 && remaining(tk, r) > 0 {
							short = append(short, fmt.Sprintf("%s:%d", r, remaining(tk, r)))
						}
					}
					rn, rv := p.cpuRequest()
					c.Class("victim-frees-nothing-by:" + feat)
					deferred = append(deferred, func() bool {
						return c.Violation(t, "evict:victim-frees-nothing", "%s evicted %s although it frees nothing of what is still short (%s): the pod holds %s=%d and batch-cpu=%d by request and uses %dm%s",
							feat, name, strings.Join(short, " "), rn, rv, p.sumReq(apiext.BatchCPU), p.Metric*c11Unit, describe())
					})
				}
			}
			if cl.OK {
				succeeded[p.Idx] = true
				if !isVictim[p.Idx] {
					isVictim[p.Idx] = true
					victims = append(victims, p)
				}
			} else {
				sawFail = true
			}
		}
		nEvict := 0
		for _, cl := range ex.calls {
			if !cl.Asked {
				nEvict++
			}
		}
		ineligiblePresent := false
		for _, p := range s.pods {
			for _, tk := range tasks {
				ok := p.allows(tk.feature)
				switch tk.feature {
				case string(features.BECPUEvict):
					ok = ok && p.isBE()
				case string(features.CPUEvict):
					ok = ok && p.allowedByPriority(tk.feature, *s.cfg.EvictEnabledPriorityThreshold)
				case string(features.CPUAllocatableEvict):
					ok = ok && p.allowedByPriority(tk.feature, *s.cfg.AllocatableEvictPriorityThreshold)
				}
				if !ok {
					ineligiblePresent = true
				}
			}
		}
		c.Class(fmt.Sprintf("tasks:%d", len(tasks)))
		if tk := taskOf[string(features.CPUAllocatableEvict)]; tk != nil {
			helperVictim, exact := false, false
			for _, v := range victims {
				if rn, _ := v.cpuRequest(); v.hasHelperFor(rn) && tk.target[rn] > 0 {
					helperVictim = true
				}
			}
			for r, tv := range tk.target {
				var have int64
				for _, v := range victims {
					have += lo(tk, v, r)
				}
				if tv > 0 && have == tv {
					exact = true
				}
			}
			c.ClassIf(helperVictim, "allocatable-victim-with-request-less-helper-container")
			c.ClassIf(exact, "allocatable-target-hit-exactly-by-the-victims-requests")
			c.ClassIf(helperVictim && exact, "allocatable:helper-container-victim+exact-target")
		}
		c.ClassIf(nEvict > 0, "some-eviction")
		c.ClassIf(nEvict >= 2, "two-or-more-evict-calls")
		c.ClassIf(sawFail, "eviction-call-failed")
		c.ClassIf(sawPending, "already-evicted-pod-counted")
		c.ClassIf(sawNoMetricEvicted, "pod-without-usage-sample-evicted(frees-nothing not asserted)")
		c.ClassIf(sawFreesNothingOwn, "evicted-pod-frees-nothing-for-own-task")
		c.ClassIf(sawFreesNothingOwn && len(deferred) == 0, "evicted-pod-frees-nothing-for-own-task-but-helps-another(not asserted)")
		for _, tk := range tasks {
			c.Class("task:" + tk.feature)
		}
		if nEvict > 0 && ineligiblePresent && len(tasks) > 0 {
			c.NonTrivial(describe())
		}
		if c.WantSample() {
			c.Sample(map[string]any{"scene": strings.Split(strings.TrimSpace(describe()), "\n  ")})
		}
		for _, d := range deferred {
			if d() {
				return
			}
		}
	})
}
