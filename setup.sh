#!/bin/sh
# Build every harness test binary once (warms the go build cache); offline, from files on disk only.
cd "$(dirname "$0")" || exit 1
rc=0
for id in $(python3 -c "import sys; sys.path.insert(0,'lib'); import manifest_meta as mm; print(' '.join(sorted(mm.CLAIMED)))"); do
  python3 lib/driver.py "$id" --build-only || rc=$?
done
exit 0
