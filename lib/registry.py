"""Registry of checks: property -> harness units -> tests with per-tier budgets.

One file per property under lib/props/<ID>.py, each defining PROP = {
  "rule":        text for evidence.coverage.rule (how cases are generated, what makes one non-trivial / distinct),
  "assumptions": [..] copied into the evidence,
  "units": [ {"name", "pkg" (package dir relative to the repo root), "files" (paths under /verif/harness),
              "tests": [ {"run": Go test name, "quick": N, "thorough": N   (rapid cases per process),
                          "shards": thorough processes (default 12), "quick_shards": (default 1),
                          "steps": -rapid.steps, "race": bool, "rapid": False for plain Go tests,
                          "thorough_only": bool, "timeout_quick"/"timeout_thorough": seconds, "env": {..}} ] } ],
  "manifest": {"technique", "text", "note"}   -> MANIFEST.json (lib/gen_manifest.py)
}
"""
import importlib.util
import os

PERF_STUB = ("pkg/koordlet/util/perf_group/perf_group_linux.go is replaced (build overlay only) by a cgo-free stand-in "
             "with the same exported surface, because libpfm4 headers are not installed; no oracle touches perf counters")

PROPS = {}
_d = os.path.join(os.path.dirname(os.path.abspath(__file__)), "props")
for _fn in sorted(os.listdir(_d)):
    if _fn.endswith(".py") and not _fn.startswith("_"):
        try:
            _spec = importlib.util.spec_from_file_location("verif_prop_" + _fn[:-3], os.path.join(_d, _fn))
            _m = importlib.util.module_from_spec(_spec)
            _spec.loader.exec_module(_m)
            PROPS[_fn[:-3]] = _m.PROP
        except Exception as _e:  # a broken entry must not take the other properties down
            import sys
            print("registry: cannot load %s: %r" % (_fn, _e), file=sys.stderr)
