"""Registry of checks: property -> harness units -> tests with per-tier budgets.

unit:  name, pkg (package dir relative to /repo), files (under /verif/harness), tests
test:  run (Go test name), quick / thorough (rapid case counts per process), shards (thorough processes),
       quick_shards, steps (rapid -rapid.steps), race (build+run with -race), rapid (False for plain Go tests),
       thorough_only, timeout_quick / timeout_thorough (s), env
"""

PERF_STUB = ("pkg/koordlet/util/perf_group/perf_group_linux.go is replaced (build overlay only) by a cgo-free stand-in "
             "with the same exported surface, because libpfm4 headers are not installed; no oracle touches perf counters")

PROPS = {}

PROPS["C06"] = {
    "rule": ("rapid-generated cases. takeCPUs: (topology sockets1-2 x numa1-2 x cores1-8 x threads{1,2,4}, arbitrary free set, "
             "arbitrary allocated details/refcounts, bind x exclusive policy, strategy, request 0..#cpus+2, optional preferred set); "
             "non-trivial = asymmetric free set (a partially free core) AND request spanning more than one NUMA node AND success. "
             "numaSplit: (1-4 NUMA nodes, free vectors, hint = any non-empty subset of ids, requests at/around the boundary); "
             "non-trivial = hint is not {0..k} AND hinted nodes have unequal free memory. managerHistory: rapid state machine of "
             "allocate+update / updateAgain / release / releaseUnknown through resourceManager; non-trivial = >=3 operations with a "
             "NUMA-hint allocation or a CPU shared by two pods. distinct = FNV-64 fingerprint of the full case."),
    "assumptions": [
        "topologies are regular (every core has the same number of threads), as NewTopologyOptions builds them from the NRT report",
        "allocations enter the ledger only through Allocate followed by Update (what Reserve does); informer-restored allocations are C19's subject",
        "completeness of the NUMA split is asserted only for freely divisible requests (memory; cpu without cpu-bind)",
    ],
    "units": [
        {"name": "numa", "pkg": "pkg/scheduler/plugins/nodenumaresource", "files": ["C06/c06_test.go"],
         "tests": [
             {"run": "TestVerifC06TakeCPUs", "quick": 3000, "thorough": 15000},
             {"run": "TestVerifC06NUMASplit", "quick": 3000, "thorough": 20000},
             {"run": "TestVerifC06ManagerHistory", "quick": 400, "thorough": 3000, "steps": 25},
         ]},
    ],
}
