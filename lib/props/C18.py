# C18 registry entry: see lib/registry.py for the field meanings
PROP = {'rule': 'rapid-generated cases. One case = one LowNodeLoad plugin instance (1-2 disjoint node pools selected by label, 2-6 nodes with '
         'round or odd allocatable, optionally a raw-allocatable annotation, optionally unschedulable; low/high thresholds absolute or '
         'deviation-based on any subset of cpu/memory/pods, optional prod low/high thresholds, resource weights; anomaly condition '
         'absent or ConsecutiveAbnormalities 1-4 with timeout 1h/24h/1ns; pod selectors, evictable namespaces, per-pod evictor verdict '
         'and Evict() result, optionally a STATEFUL evictor filter that admits at most k (0-4) evictions per node / namespace / workload '
         'label per round with the verdict taken at call time, NodeFit, NumberOfNodes, dry-run) driven through 1-8 successive Balance '
         'rounds on the same instance; every '
         'round regenerates pods (prod / non-prod, with / without metrics), system usage, stale pod metrics and NodeMetric freshness '
         '(fresh / expired / no update time / missing / empty status), with node usage levels that persist across rounds with '
         'probability 5/8-6/8 (plus "prodhot" nodes that are calm at node level but above a prod high threshold in 6 of 8 rounds, and '
         '"cold" nodes without prod load) and totals aimed at the thresholds (equal, +-1, 16 steps in between). non-trivial = in some round a '
         'source node fell back under its high threshold after >=1 successful eviction while pods that pass the filters were still '
         'left on it. distinct = FNV-64 fingerprint of the full case (configuration + all rounds).',
 'assumptions': ['node pools of one plugin instance select disjoint node sets (overlapping pools are not generated)',
                 'low and high thresholds of one level are configured for the same resources, low <= high, prod high <= node high '
                 '(what the validation plus the defaulting accept and produce); NodeMetricExpirationSeconds and DetectorCacheTimeout are '
                 'set (the defaulting always sets them)',
                 'NodeMetric.nodeUsage = systemUsage + sum(podsMetric) in every generated NodeMetric, so "measured usage" is unambiguous',
                 'NodeMetric update times are >= 1.8 h away from the expiration boundary relative to time.Now(); anomaly timeouts are 1 h+ '
                 '(never reached) or 1 ns (always reached before the next round)',
                 'threshold quantities are recomputed exactly (big.Rat) and the value used by koordinator is assumed to lie within '
                 'floor(exact -/+ (capacity*1e-12 + 1e-9)) (float64 evaluation + truncation); comparisons inside that band are not asserted',
                 'consecutive abnormal rounds are modelled per node and per level (node / prod runs separate) over the rounds in which the '
                 'node had a usable NodeMetric: while ok the run grows with every round possibly above the threshold and restarts with a '
                 'round certainly not above it; an eviction needs a run >= N (= ConsecutiveAbnormalities, lower bound; the code needs N+1); '
                 'once possibly abnormal the node stays so until it CERTAINLY returned to ok: more than ConsecutiveNormalities rounds in a '
                 'row certainly not above the threshold, or the balancer brought it back under the threshold of that level and went on to '
                 'a further candidate pod (asserted only with a static filter and without NodeFit, where the remaining candidates are '
                 'known), or the node was certainly underused (below all node-level low thresholds and no prod hotspot; resp. between the '
                 'node-level thresholds and below all prod low thresholds for the prod run) and schedulable in a round in which the pool '
                 'certainly had a node treated as abnormal (an Evict call was made in the pool in that round, or another node was '
                 'certainly above a node-level high threshold for N+1 measured rounds in a row with nothing moved off it and the anomaly '
                 'timeout is hours); then a new run of N is required. Underused-node resets in other rounds, timeout expiry and the extra '
                 'normal mark after an eviction round are not modelled (they only make koordinator more conservative than the model)',
                 'TestVerifC18Relapse scripts the node levels of three nodes (n0: overloaded with mostly protected pods for N+1 rounds, '
                 'underused for one round, overloaded again; n1: always overloaded; n2: mostly underused) in one pool with absolute '
                 'thresholds, N 2-3, timeout 1h; everything else is generated as in the main test',
                 'TestVerifC18ProdShared scripts one pool with absolute node-level and prod thresholds and no consecutive-round gating: n0 '
                 'always overloaded at node level, n1 overloaded at prod level only, n2 underused at both levels without prod load, n3 with '
                 'prod usage below the prod high threshold but above it together with a non-prod pod that has the NAME of one of its prod '
                 'pods in another namespace; in this test non-prod pods may generally take the name of a prod pod of another namespace on '
                 'the node (pods are identified by namespace/name everywhere in the oracle)',
                 'prod-level receivable load: upper bound = min(sum over nodes possibly below the prod low thresholds of (prod high - prod '
                 'usage), the part of that sum offered by nodes that are not underused at node level + what the node-level evictions of '
                 'the round left of the node-level headroom), minus the prod-level evictions so far',
                 'with a stateful evictor filter the verdict at the moment of each Evict call is recomputed from the successful evictions '
                 'recorded so far in the round',
                 'the main unit builds the LowNodeLoad struct with the same filter composition as NewLowNodeLoad but feeds NodeMetrics '
                 'through an indexer-backed lister; the second unit goes through NewLowNodeLoad and swaps only the lister'],
 'units': [{'name': 'lownodeload',
            'pkg': 'pkg/descheduler/framework/plugins/loadaware',
            'files': ['C18/c18_lownodeload_test.go'],
            'tests': [{'run': 'TestVerifC18Balance', 'quick': 2000, 'quick_shards': 2, 'thorough': 8000},
                      {'run': 'TestVerifC18BalanceViaConstructor', 'quick': 40, 'thorough': 150},
                      {'run': 'TestVerifC18Relapse', 'quick': 1500, 'thorough': 4000},
                      {'run': 'TestVerifC18ProdShared', 'quick': 1500, 'thorough': 4000}]}],
 'manifest': {'technique': 'property-based testing (rapid): generated clusters, threshold settings and multi-round usage histories against '
                           'a recording evictor, with an independent exact-arithmetic oracle per Evict call',
              'text': 'Generated-input / history search: a LowNodeLoad instance is driven through 1-6 successive Balance rounds over '
                      'generated node pools, thresholds (absolute, deviation, prod), pods, NodeMetrics, filters and anomaly conditions. '
                      'Every Evict(pod) call, in order, must be justified at node level or at prod level by a usage/threshold table '
                      'recomputed in the harness from the inputs: the node has a fresh NodeMetric and its usage minus the metrics of the '
                      'pods already evicted from it in this round is above a high threshold; another schedulable node is below all low '
                      'thresholds; an upper bound of the receivable load of the underused nodes minus what was already evicted is positive '
                      'in every thresholded resource (at prod level the nodes underused at both levels are shared: what the node-level evictions '
                      'of the round already sent there no longer counts); with ConsecutiveAbnormalities N>1 the node has a current run of N measured rounds above the '
                      'threshold of that level, and needs a new run after it certainly returned to normal (evicted back under the threshold, '
                      'measured as underused while the balancer was handling an abnormal node, or more than ConsecutiveNormalities normal '
                      'rounds); the pod passes the per-pod evictor verdict, pod selectors, '
                      'namespace rules and, for a stateful evictor filter, the filter as evaluated at the moment of the call; nothing is '
                      'evicted in dry-run. Zero evictions with no overloaded / no underused / only underused nodes follow from the per-call clauses. '
                      'Exploration, not proof: absence of violations over the sampled cases.',
              'note': 'one-directional (never asserts that an eviction must happen); node / pod ordering and NumberOfNodes are not asserted; '
                      'disjoint pools only; thresholds within the float rounding band are not asserted; the wall clock is read by '
                      'koordinator (metric expiry, anomaly timeout) and kept hours away from every boundary; Go map iteration inside '
                      'koordinator is not controlled (it can change which of several justified evictions happen, not the verdict)'}}
