# C16 registry entry: see lib/registry.py for the field meanings
PROP = {
    'rule': 'rapid-generated cases. (b) *Sequential (PodEvictor; evictorProxy = EvictionLimiter.AllowEvict -> evict plugin -> Done): caps '
            'per node / namespace / total drawn from {unset, 0, 1..3(5)}, 1-3 nodes, 1-3 namespaces, dry-run 1/10, 0..20 eviction requests '
            '(pod on a node or unassigned, API outcome ok / NotFound / 429 / 500 decided by the generator), limiter Reset (new cycle) between '
            'requests; oracle after every request. Non-trivial = not dry-run and in some capped scope more requests whose API call would '
            'succeed than the cap allows. (c) *Interleaved / *Parallel: 2..16 worker goroutines with 1..3 requests each against one evictor; '
            'the eviction endpoint of the fake clientset parks every in-flight call on its own channel; in each step rapid chooses among '
            '"start the next worker" and "answer parked call X" (Interleaved: one action per step, quiescence between steps observed through '
            'counters / a stop-the-world goroutine-state snapshot, so the interleaving of check - API call - count is exactly the drawn '
            'schedule; Parallel: 1..4 actions back to back, built with -race). Non-trivial = at some quiescent point two workers were inside '
            'Evict (API call in flight or queued on the evictor\'s lock) for one capped scope with exactly one slot left. (a) '
            'arbitrationRounds: rapid state machine over a fake API (1-3 nodes, 1-3 namespaces, 1-4 workloads with 1..11 replicas and '
            'ready/not-ready pods, replicas in graceful deletion that are still Running+Ready, bare pods, pods with max eviction cost; limits global / node / namespace in {unset, 0, 1..3}, per-workload '
            'migrating / unavailable in {unset, 1..3, 10..100%}; SkipEvictionGates = none (40%) or any subset of the 14 legal gate names; jobs '
            'whose spec.podRef has no UID (about half of the external / pre-existing jobs, UID sometimes filled in when the job turns Running); pre-existing running and passed-pending jobs that may already exceed a '
            'limit) with actions descheduler-evict (gated by arbitrator.Filter), external job, job starts running, running job evicts its '
            'pod (+ not-ready replacement), job succeeds / fails / aborted, job deleted, pod readiness flips, pod starts terminating, pod '
            'vanishes, arbitrator restart (new arbitratorImpl with empty in-memory state on the same fake API, every non-finished job '
            'replayed through the real create-event handler in a drawn order), arbitration round; every case ends with a round. Non-trivial = before some round a limited scope had exactly one free slot and at least two '
            'admissible waiting jobs. arbitrationEvents = the same state machine plus (i) delivery of the Update events of the jobs written by a '
            'round (passed job: annotation written, phase still empty; failed job) to the real event handler after every round, (ii) pods with '
            'the evict override annotation (1/10 of the pods) and an action that asks Filter for annotated pods again and again, (iii) the pod of a waiting job deleted and re-created '
            'under the same name with a new UID. (b2) deschedulerCycle: a real Descheduler (1-2 profiles built by framework/testing.NewFramework, '
            '0-2 Deschedule and 0-2 Balance harness plugins per profile that ask handle.Evictor() to evict generated pods, PodEvictor-backed evict '
            'plugin on the gate clientset, one shared EvictionLimiter with generated caps, 2-4 nodes) runs 1-3 deschedulerOnce cycles; oracle '
            'after every cycle, on that cycle only. Non-trivial = not dry-run and in some cycle and capped scope both a Deschedule and a Balance '
            'plugin ask for an eviction the API would grant while together they ask for more than the cap. distinct = FNV-64 of caps/limits + '
            'full history.',
    'assumptions': [
        'evictions issued = eviction API calls answered with success by the (fake) API server; a failed call evicts nothing and may be '
        'followed by further attempts',
        'in dry-run only "no API call" is asserted for PodEvictor (it does not count simulated evictions); evictorProxy counts simulated '
        'evictions, its counters are compared with the accepted requests',
        'pods carrying the explicit override annotation descheduler.alpha.kubernetes.io/evict (which bypasses every filter by design) are '
        'generated only in arbitrationEvents; a job admitted for such a pod raises the bound of its scopes by one for that round (bound = '
        'max(limit, count before) + admissions forced by the annotation) and can never be a legally Failed job; the clause "no second job '
        'for a pod with a live job" is asserted for them as for any pod',
        'arbitrationEvents: after every round the Update events of all jobs the round has written are delivered to the real '
        'arbitrationHandler before anything else happens (watch latency << arbitration interval)',
        'at most one live PodMigrationJob per pod is generated (jobs are created for pods without a live job, or through arbitrator.Filter), '
        'so "jobs" and "pods being migrated" coincide',
        'a waiting job whose pod no longer exists is admitted unconditionally by the arbitrator (arbitrator.go filtering(pod==nil)); such a '
        'job migrates nothing and is not counted by the oracle (class job-admitted-without-pod)',
        'per-node and per-workload attribution of a job goes through its pod as it exists in the API during the round; per-workload limits '
        'use the documented rounding of util.GetMaxMigrating/GetMaxUnavailable (percent rounded down, at least 1, defaults 10% / 2 / 1, '
        'never more than the replicas), restated independently in the harness',
        'the controller finder is a harness fake (pods of a workload = pods in the fake API controlled by it; replicas = workload spec); '
        'job creation timestamps are distinct seconds so that the processing order of a round does not depend on Go map iteration',
        'unavailable pod of a workload = not Ready, or phase Succeeded/Failed, or being deleted (deletionTimestamp set), i.e. not '
        '(IsPodActive && Ready) in kube terms; a terminating pod is also a non-headroom reason for its own job to fail',
        'a limit whose gate is listed in SkipEvictionGates is not asserted, every other limit is; with only MaxMigratingPerWorkload skipped '
        'the unavailable limit still counts pods being migrated; skipping ExpectedReplicas / BarePods removes that reason from the legal '
        'reasons for a Failed job; jobs are attributed to their pod by podRef namespace/name, so a podRef without UID changes nothing in '
        'the oracle',
        'a restart replays only the jobs that are not finished (phase "", Pending, Running)',
        'deschedulerCycle: with two profiles the order of the profiles inside a phase is Go map iteration order of profile.Map (not '
        'controlled; the per-cycle oracle does not depend on it); the node informer is not started, ReadyNodes lists from the clientset',
        'a pod re-created under the same name is the pod of the job for the oracle (attribution by podRef namespace/name), whatever '
        'UID the podRef carries',
        'Parallel tests: the Go scheduler decides the order inside a batch, so which interleaving is explored is not a pure function of the '
        'seed there (the oracle holds for every interleaving of correct code); the Interleaved tests are deterministic',
    ],
    'units': [
        # shared machinery of the two eviction harnesses: a brand-new package added by the build overlay, no tests of its own
        {'name': 'kit', 'pkg': 'pkg/verifkit/c16kit', 'files': ['C16/c16kit.go'], 'tests': []},
        {'name': 'evictions',
         'pkg': 'pkg/descheduler/evictions',
         'files': ['C16/c16_evictions_test.go'],
         'tests': [{'run': 'TestVerifC16PodEvictorSequential', 'quick': 2000, 'thorough': 10000},
                   {'run': 'TestVerifC16PodEvictorInterleaved', 'quick': 600, 'thorough': 2000},
                   {'run': 'TestVerifC16PodEvictorParallel', 'quick': 300, 'thorough': 1500, 'race': True, 'shrinktime': '5s'}]},
        {'name': 'proxy',
         'pkg': 'pkg/descheduler/framework/runtime',
         'files': ['C16/c16_proxy_test.go'],
         'tests': [{'run': 'TestVerifC16ProxySequential', 'quick': 2000, 'thorough': 10000},
                   {'run': 'TestVerifC16ProxyInterleaved', 'quick': 600, 'thorough': 2000},
                   {'run': 'TestVerifC16ProxyParallel', 'quick': 300, 'thorough': 1500, 'race': True, 'shrinktime': '5s'}]},
        {'name': 'cycle',
         'pkg': 'pkg/descheduler',
         'files': ['C16/c16_cycle_test.go'],
         'tests': [{'run': 'TestVerifC16DeschedulerCycle', 'quick': 1500, 'thorough': 8000}]},
        {'name': 'arbitrator',
         'pkg': 'pkg/descheduler/controllers/migration/arbitrator',
         'files': ['C16/c16_arbitrator_test.go'],
         'tests': [{'run': 'TestVerifC16ArbitrationRounds', 'quick': 300, 'quick_shards': 4, 'thorough': 1200, 'steps': 50,
                    'shrinktime': '15s'},
                   {'run': 'TestVerifC16ArbitrationEvents', 'quick': 150, 'quick_shards': 4, 'thorough': 1200, 'steps': 50,
                    'shrinktime': '15s'}]},
    ],
    'manifest': {
        'technique': 'property-based testing (rapid): generated eviction request multisets with an independent counting oracle, '
                     'generated and replayable interleavings of concurrent evictors around a harness-owned API yield point (plus -race), '
                     'and a state machine over arbitration rounds with a counting oracle on the fake API',
        'text': 'Generated-input search. Evictions: every request sequence / every generated interleaving of 2-16 concurrent callers of '
                'PodEvictor.Evict and of the framework evictorProxy is checked at quiescence against a plain count of the eviction API calls '
                'that succeeded: per node / namespace / total never above the cap, reported counters equal to that count, a refused request '
                'reaches neither the API server nor the counters nor the event recorder, dry-run reaches the API server never; the concurrent '
                'variant is also built with the race detector. Arbitration: after every round of the real arbitrator (real sort chain, real '
                'filter wiring) the jobs that are running or passed are counted from the fake API per node, namespace, workload and globally '
                'and, per workload, the pods that are not ready or being migrated; each count must be within the limit or not above its value '
                'before the round; a job that left the round Failed must have a reason other than missing headroom, a refused job must still '
                'be waiting and Pending, and Filter must refuse a pod that has a live job. Exploration, not proof: interleavings are sampled '
                'at the granularity of the API call; absence of violations over the sampled cases.',
        'note': 'fake clientset / controller-runtime fake client with the field indexes; harness controller finder; evict-annotation override '
                'not generated; one live job per pod; rapid\'s PRNG and shrinker; inside a Parallel batch the Go '
                'scheduler is not controlled',
    },
}
