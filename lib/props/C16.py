# C16 registry entry: see lib/registry.py for the field meanings
PROP = {
    'rule': 'placeholder',
    'assumptions': [],
    'units': [
        # shared machinery of the two eviction harnesses: a brand-new package added by the overlay, no tests of its own
        {'name': 'kit', 'pkg': 'pkg/verifkit/c16kit', 'files': ['C16/c16kit.go'], 'tests': []},
        {'name': 'evictions',
         'pkg': 'pkg/descheduler/evictions',
         'files': ['C16/c16_evictions_test.go'],
         'tests': [{'run': 'TestVerifC16PodEvictorSequential', 'quick': 2000, 'thorough': 15000},
                   {'run': 'TestVerifC16PodEvictorInterleaved', 'quick': 600, 'thorough': 3000},
                   {'run': 'TestVerifC16PodEvictorParallel', 'quick': 300, 'thorough': 3000, 'race': True, 'shrinktime': '5s'}]},
        {'name': 'proxy',
         'pkg': 'pkg/descheduler/framework/runtime',
         'files': ['C16/c16_proxy_test.go'],
         'tests': [{'run': 'TestVerifC16ProxySequential', 'quick': 2000, 'thorough': 15000},
                   {'run': 'TestVerifC16ProxyInterleaved', 'quick': 600, 'thorough': 3000},
                   {'run': 'TestVerifC16ProxyParallel', 'quick': 300, 'thorough': 3000, 'race': True, 'shrinktime': '5s'}]},
    ],
    'manifest': {'technique': 'placeholder', 'text': 'placeholder', 'note': 'placeholder'},
}
