# C06 registry entry: see lib/registry.py for the field meanings
PROP = {'rule': 'rapid-generated cases. takeCPUs: (topology sockets1-2 x numa1-2 x cores1-8 x threads{1,2,4}, arbitrary free set, arbitrary '
         'allocated details/refcounts, bind x exclusive policy, strategy, request 0..#cpus+2, optional preferred set); non-trivial = '
         'asymmetric free set (a partially free core) AND request spanning more than one NUMA node AND success. numaSplit: (1-4 NUMA '
         'nodes, free vectors, hint = any non-empty subset of ids, requests at/around the boundary); non-trivial = hint is not {0..k} AND '
         'hinted nodes have unequal free memory. managerHistory: rapid state machine of allocate+update / updateAgain / release / '
         'releaseUnknown through resourceManager; non-trivial = >=3 operations with a NUMA-hint allocation or a CPU shared by two pods. '
         'managerHistoryExt: the same state machine plus topologyFlap (NodeResourceTopology deleted, then 0-3 of {release of a recorded '
         'pod, update of a recorded pod, NUMA-only scheduling attempt} while no topology is known, then the same topology reported '
         'again) and reusableDryRun (uncommitted Allocate that may reuse the CPUs / NUMA amounts of a live pod acting as matched '
         'reservation: preferredCPUs + reusableResources, mostly with NUMA hint and REQUIRED FullPCPUs/SpreadByPCPUs); non-trivial = >=3 '
         'operations with a recorded pod released while the topology was missing, or a required-FullPCPUs whole-core request with NUMA '
         'hint over reusable CPUs that are not core-aligned, or a preemption dry run (victims = live pods, restored CPUs / NUMA amounts '
         'read back through GetAllocatedCPUSet / GetAllocatedNUMAResource as preempt.go does, request at/around what the hinted nodes '
         'have free for this pod) with a victim whose NUMA node list is not {0..k}. '
         'managerHistoryExt also has reservedCPUsChanged (NRT refresh with a different reserved set, possibly over CPUs that pods hold; from '
         'then on no reserved CPU may be handed out or reported available). '
         'heteroNUMA: 2-4 NUMA nodes of which any non-empty subset is reported (ascending ids, so list position != NUMA id when a lower id is missing), reporting different resource sets (cpu on every reported node; memory, hugepages-1Gi, example.com/nic on arbitrary '
         'subsets), 1-4 NUMA-only pods allocated+recorded with any hint and requests at/around what the hinted nodes have free; success iff '
         'enough, exact, inside the hint, per node bounded; non-trivial = heterogeneous sets and a hint naming only NUMA nodes that lack a '
         'requested NUMA-managed resource. '
         'pluginHistory: rapid state machine over the REAL Plugin (one instance from the package\'s newPluginTestSuit, fresh '
         'resourceManager / TopologyOptionsManager per case) and the real podEventHandler: schedule (PreFilter, RestoreReservation with '
         'any matched/unmatched split of the live reservations, Filter incl. NUMA topology manager admit, nominate, Reserve; LSR cpuset '
         'pods and NUMA-only pods, requests at/around what a NUMA node has free for the pod), scheduleDesignated (scheduling hint + '
         'resource-status annotation; mostly consistent with the cluster, 1/8 with a held CPU), scheduleReservation (NUMA-only reserve '
         'pod), unreserve, bind (PreBind + informer update), status-only pod update, informer add of an existing annotated pod, pod '
         'delete (half of them delivered as cache.DeletedFinalStateUnknown tombstone values) / terminated, NodeResourceTopology deleted / reported again; non-trivial = >=3 operations with a reserved designated '
         'allocation, a bind, a cycle with matched AND unmatched reservations, or a pod whose events were dropped without topology and '
         'that a later status-only update recorded. '
         'concurrentFirstTouch: one generated script set (2-8 goroutines x 1-3 ops of record / record+release / release-unknown / read, '
         'pairwise disjoint allocations) replayed behind a barrier on 100 (thorough 300) fresh nodes of a fresh resourceManager, oracle at '
         'quiescence; non-trivial = >=2 goroutines whose first operation records a pod. '
         'distinct = FNV-64 fingerprint of the full case.',
 'assumptions': ['topologies are regular (every core has the same number of threads), as NewTopologyOptions builds them from the NRT '
                 'report',
                 'allocations enter the ledger only through Allocate followed by Update (what Reserve does); informer-restored allocations '
                 "are C19's subject",
                 'completeness of the NUMA split is asserted only for freely divisible requests (memory; cpu without cpu-bind)',
                 'while a node has no valid CPU topology, resourceManager.Update is a documented no-op (guard at its top): a pod is "live" in '
                 'the model only once it was recorded; a recorded pod stays live across an NRT delete/re-create and leaves the model when '
                 'Release is called, whether or not a topology is known at that moment (pod delete events / Unreserve are not guarded)',
                 'the topology reported again after a delete is the same one (same MaxRefCount, reserved CPUs, NUMA resources)',
                 'a resource is NUMA-managed on a node when at least one of its NUMA nodes reports it; a NUMA node not reporting it has none',
                 'plugin unit: sharing limit 1, no node-reserved CPUs, NUMA policy from the NRT (fixed per case); reservations are NUMA-only '
                 'and allocate-once (consumed and removed in the same step in which a pod is allocated with them); while pods exist whose '
                 'events were all dropped (no topology), or no topology is known, only informer events are generated, no scheduling cycles; '
                 '"free for this pod" on a NUMA node = capacity minus what the other live pods and every reservation the pod is not '
                 'allocated from hold there; NUMA exactness is not asserted for allocations from a Restricted reservation (resources the '
                 'reservation does not hold are not NUMA-allocated by koordinator)',
                 'concurrent unit: pods are recorded with Update() from pre-built disjoint allocations (what the pod informer does from the '
                 'pod annotations after a restart); every pod is touched by one goroutine only, so the state at quiescence is schedule '
                 'independent; detection of a lost update is probabilistic, the verdict on correct code is not; run without -race',
                 'reusable CPUs of a reservation are modelled as a subset of the CPUs of one live pod, handed back once (preferredCPUs), with '
                 'one cpu of NUMA amount per handed-back CPU on the NUMA nodes that pod was charged on'],
 'units': [{'name': 'numa',
            'pkg': 'pkg/scheduler/plugins/nodenumaresource',
            'files': ['C06/c06_test.go', 'C06/c06_concurrent_test.go', 'C06/c06_plugin_test.go', 'C06/c06_hetero_test.go'],
            'tests': [{'run': 'TestVerifC06TakeCPUs', 'quick': 20000, 'thorough': 150000},
                      {'run': 'TestVerifC06NUMASplit', 'quick': 20000, 'thorough': 200000},
                      {'run': 'TestVerifC06ManagerHistory', 'quick': 3000, 'thorough': 25000, 'steps': 25},
                      {'run': 'TestVerifC06ManagerHistoryExt', 'quick': 3000, 'thorough': 25000, 'steps': 25},
                      {'run': 'TestVerifC06HeteroNUMA', 'quick': 6000, 'thorough': 20000},
                      {'run': 'TestVerifC06PluginHistory', 'quick': 2500, 'thorough': 8000, 'steps': 20},
                      {'run': 'TestVerifC06ConcurrentFirstTouch', 'quick': 150, 'thorough': 300, 'shards': 2, 'shrinktime': '0s'},
                      {'run': 'FuzzVerifC06NUMASplit', 'fuzz': True, 'rapid': False, 'thorough_only': True, 'fuzztime': '40s'},
                      {'run': 'FuzzVerifC06TakeCPUs', 'fuzz': True, 'rapid': False, 'thorough_only': True, 'fuzztime': '40s'}]}],
 'manifest': {'technique': 'property-based testing (rapid): generated topologies/free sets/hints with validity + completeness oracle, and '
                           'a model-based state machine over allocate/update/release',
              'text': 'Generated-input search: every takeCPUs/takePreferredCPUs result is checked for exact count and containment in the '
                      'free set on arbitrary (asymmetric) free sets; the NUMA split is checked two-directionally (exact, per-node bounded, '
                      'inside the hint, and succeeds iff the hinted nodes together hold the request for divisible resources) for any '
                      'subset hint; allocate/update/release histories are compared after every step with a reference model of per-CPU '
                      'holders and per-NUMA sums, including histories in which the NodeResourceTopology disappears and comes back '
                      'while pods are released, and uncommitted allocations over reusable (reservation) CPUs whose required bind policy '
                      'is re-verified independently, preemption dry runs whose restored amounts come from the manager\'s own getters and '
                      'are judged against the model (nothing beyond what is free for this pod per NUMA node; divisible requests that fit '
                      'succeed), and a concurrent unit in which several goroutines touch fresh nodes for the first time together and the '
                      'ledger is compared with the sum of the live pods after they were joined; finally the same model is held against '
                      'the real Plugin and pod event handler (scheduling cycles with reservations and designated allocations, binding, '
                      'informer events, topology loss). Exploration, not proof: absence of violations over the sampled cases.',
              'note': "regular topologies; allocations enter the ledger only via Allocate+Update; rapid's PRNG and shrinker; Go map "
                      'iteration inside koordinator is not controlled'}}
