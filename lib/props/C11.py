# C11 registry entry: see lib/registry.py for the field meanings
import os, sys
sys.path.insert(0, os.path.dirname(os.path.dirname(os.path.abspath(__file__))))
try:
    from registry import PERF_STUB
except Exception:  # registry is being imported right now (circular): fall back to the same text
    PERF_STUB = ("pkg/koordlet/util/perf_group/perf_group_linux.go is replaced (build overlay only) by a cgo-free stand-in "
                 "with the same exported surface, because libpfm4 headers are not installed; no oracle touches perf counters")

PROP = {'rule': 'TODO',
 'assumptions': [PERF_STUB],
 'units': [{'name': 'loop',
            'pkg': 'pkg/koordlet/qosmanager/plugins/util',
            'files': ['C11/c11_loop_test.go'],
            'tests': [{'run': 'TestVerifC11Loop', 'quick': 3000, 'thorough': 20000}]}],
 'manifest': {'technique': 'TODO', 'text': 'TODO', 'note': 'TODO'}}
