# C11 registry entry: see lib/registry.py for the field meanings
PERF_STUB = ('pkg/koordlet/util/perf_group/perf_group_linux.go is replaced (build overlay only) by a cgo-free stand-in '
             'with the same exported surface, because libpfm4 headers are not installed; no oracle touches perf counters')

PROP = {'rule': 'rapid-generated cases. loop (KillAndEvictPods): 1-3 tasks over a small alphabet of target types {podUsed, podResourceRequest, '
         'podBatchResourceRequest} and resources {memory, cpu, batch-*, mid-*}; targets nil / empty / zero / 1..8 units (x1, x1000, x2^30 '
         'with +-1 jitter); 1-7 pods, each task a victim list that is a random ordered subset; per-pod release amounts 0..6 with a '
         'per-case share of zeros; each task\'s GetPodResourceFunc reports values with explicit zeros / without zeros / nil / empty, all '
         'resources or only the target\'s; the PodEvictInfo of one pod may differ between lists (1 case in 5); recording executor with a '
         'per-pod, per-call failure pattern, a set of already-evicted pods, and optionally remembering its own evictions. non-trivial = '
         '>=2 tasks with a positive target share a victim AND at least one Evict call failed AND some candidate contributes nothing to '
         'its task\'s target. memLists/cpuLists: 0-8 pods (QoS label incl. absent/bogus, spec.priority nil / 0 / at, +-1 around the '
         'thresholds / class range borders, priority-class label, eviction-enabled label true/false/True/empty/absent, '
         'koordinator.sh/priority label, eviction-priority annotation incl. int32 limits / out of range / text, eviction-policy '
         'annotation absent / any subset of the three policies / other spelling / eight malformed forms, phase, batch/mid/native '
         'requests, usage sample present or not), thresholds from the webhook-valid range; non-trivial = >=2 pods listed AND >=1 pod '
         'excluded. memEndToEnd/cpuEndToEnd: the same pods plus node allocatable (batch/mid resource absent / 0 / small), node usage '
         'around the threshold, BE satisfaction metrics around the limits, feature gates, failure pattern and already-evicted pods, run '
         'through memoryEvict()/cpuEvict(); non-trivial = a target was computed, >=1 Evict call, >=1 pod present that the policy does '
         'not allow. memRounds/cpuRounds: the same scene (3 in 4 cases with moderate lasting pressure: target = 1..8 units), 2-3 '
         'consecutive rounds of memoryEvict()/cpuEvict() with the real Evictor behind a fake API server whose eviction subresource '
         'fails by a generated per-pod pattern; between rounds every earlier victim becomes terminating (deletionTimestamp set, still '
         'listed, still in usage/requests), stays without timestamp, or is gone (usage drops); non-trivial = a later round with a '
         'positive target, a terminating earlier victim the task\'s policy allows and a fresh candidate for the same task. '
         'memListsLarge/cpuListsLarge: 13-40 mostly eligible pods with 2-3 distinct priorities and mostly no sub-priority label / '
         'eviction priority (long runs tied on every key but usage/request), same list oracle; non-trivial as for the list units. '
         '*ListsHelpers/*EndToEndHelpers: 2-8 mostly eligible pods, 4 in 5 with 1-2 extra containers that declare no request of the '
         'evicted resource (empty or another resource only), amounts in single units so that the victims\' real requests (sum over '
         'the containers that declare one) often hit the allocatable target exactly; same oracles. '
         'memRoundsGrace/cpuRoundsGrace: the same histories with spec.terminationGracePeriodSeconds unset / 0 / 1 / 30 / 3600 per pod; '
         'non-trivial = a later round with a computed target in which an earlier victim with grace period 0 is still present. '
         'distinct = FNV-64 fingerprint of the full case description.',
 'assumptions': [PERF_STUB,
                 'a victim list never names the same pod twice and pods have unique namespace/name (lists are built from the informer\'s pod set)',
                 'functions of tasks with the same release target type report the same amount for the same (PodEvictInfo, resource) or '
                 'nothing (real callers derive them from the pod / the info), so merging them by maximum is unambiguous',
                 'release targets are never negative (callers publish positive or, for resources the node does not report, zero amounts)',
                 'pods carry status.qosClass and have no init containers / overhead (request sums are plain sums over containers)',
                 'lenient readings, see manifest note: in the single-round end-to-end units already-evicted pods count from the moment '
                 'the executor reported them (loop and rounds units: every already-evicted pod of the task\'s own list counts); a victim '
                 '"frees something" if it frees any still-short amount of ANY task of the round; a pod without usage sample is not judged '
                 'to free nothing; the best-effort lists are checked against priority, then usage (the eviction-priority annotation is '
                 'documented for "MemoryEvict, CPUEvict")',
                 'the release targets are taken as computed by buildEvictTask (the statement speaks of "the computed target")'],
 'units': [{'name': 'loop',
            'pkg': 'pkg/koordlet/qosmanager/plugins/util',
            'files': ['C11/c11_loop_test.go'],
            'tests': [{'run': 'TestVerifC11Loop', 'quick': 4000, 'thorough': 80000}]},
           {'name': 'mem',
            'pkg': 'pkg/koordlet/qosmanager/plugins/memoryevict',
            'files': ['C11/c11_mem_test.go', 'C11/c11_mem_rounds_test.go'],
            'tests': [{'run': 'TestVerifC11MemLists', 'quick': 2000, 'thorough': 20000},
                      {'run': 'TestVerifC11MemListsHelpers', 'quick': 800, 'thorough': 5000},
                      {'run': 'TestVerifC11MemListsLarge', 'quick': 400, 'thorough': 3000},
                      {'run': 'TestVerifC11MemEndToEnd', 'quick': 2000, 'thorough': 20000},
                      {'run': 'TestVerifC11MemEndToEndHelpers', 'quick': 800, 'thorough': 5000},
                      {'run': 'TestVerifC11MemRounds', 'quick': 1500, 'thorough': 10000},
                      {'run': 'TestVerifC11MemRoundsGrace', 'quick': 1000, 'thorough': 6000}]},
           {'name': 'cpu',
            'pkg': 'pkg/koordlet/qosmanager/plugins/cpuevict',
            'files': ['C11/c11_cpu_test.go', 'C11/c11_cpu_rounds_test.go'],
            'tests': [{'run': 'TestVerifC11CPULists', 'quick': 2000, 'thorough': 20000},
                      {'run': 'TestVerifC11CPUListsHelpers', 'quick': 800, 'thorough': 5000},
                      {'run': 'TestVerifC11CPUListsLarge', 'quick': 400, 'thorough': 3000},
                      {'run': 'TestVerifC11CPUEndToEnd', 'quick': 2000, 'thorough': 20000},
                      {'run': 'TestVerifC11CPUEndToEndHelpers', 'quick': 800, 'thorough': 5000},
                      {'run': 'TestVerifC11CPURounds', 'quick': 1500, 'thorough': 10000},
                      {'run': 'TestVerifC11CPURoundsGrace', 'quick': 1000, 'thorough': 6000}]}],
 'manifest': {'technique': 'property-based testing (rapid): generated task sets / victim lists / failure patterns against a recording '
                           'eviction executor with an independent running-total oracle; generated pod sets against restated eligibility '
                           'and ordering rules; end-to-end runs of memoryEvict()/cpuEvict() with fake informer and metric cache',
              'text': 'Generated-input search over (a) the shared eviction loop KillAndEvictPods: every Evict call received by a recording '
                      'executor must name a pod of the calling task\'s victim list, follow the list order without passing over a candidate '
                      'that certainly still helps, come before the task\'s target is covered by the victims so far (successful evictions of '
                      'any task plus pods reported as already evicted), never repeat a successful eviction or hit an already-evicted pod, '
                      'and free something that is still short; the returned release account must lie between the most conservative and '
                      'the most generous reading. (b) the three victim lists of memoryevict and of cpuevict: listed = exactly the pods the '
                      'policy allows (best-effort QoS, or active + priority <= threshold + eviction-enabled; not opted out by the '
                      'eviction-policy annotation; malformed annotation = opted out) that have a usage sample where the list needs one, no '
                      'duplicates, and every pair ordered by eviction priority, priority, then sub-priority label / usage or request. '
                      '(c) memoryEvict()/cpuEvict() end to end with the real task builders: eligibility of every victim per feature, no pod '
                      'twice, nothing after the computed target is covered, nothing evicted that frees none of what is short. '
                      '(d) multi-round histories through memoryEvict()/cpuEvict() with the real Evictor: a pod evicted in an earlier round '
                      'is never evicted again, and no pod is evicted in a round whose target is already covered by this round\'s victims '
                      'plus the earlier victims that are still present (terminating) and allowed for the task - first those ahead of the '
                      'new victim in the restated published order, then all of them. Only pods whose eviction call was ACCEPTED count as '
                      'victims: no eligible, not yet evicted pod that certainly still helps may be passed over in the order, and a round '
                      'that ends with a target the accepted victims do not cover (even under the most generous crediting) must have asked '
                      'for every such pod. '
                      'Exploration, not proof: absence of violations over the sampled cases.',
              'note': 'Where the statement leaves room the lenient reading is asserted and the strict one only counted as a class: '
                      'pending (already-evicted) pods count only if they belong to the calling task\'s own list / are allowed by its '
                      'policy; a victim that frees nothing for its own '
                      'task but something for another task of the same round is accepted; pods without usage sample are not judged; the '
                      'BE lists are not required to honour the eviction-priority annotation. Under-eviction is asserted only in the rounds '
                      'units and only where no reading of the accounting covers the target (stopping early merely because '
                      'memoryevict multiplies pod usage by 1000 in the by-priority lists is not flagged). '
                      'rapid\'s PRNG and shrinker; Go map iteration inside koordinator is not controlled; perf_group stand-in.'}}
