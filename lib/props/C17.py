# C17 registry entry: see lib/registry.py for the field meanings
PROP = {'rule': 'rapid state machine (-rapid.steps=50) over the real migration Reconciler: reconcile(job) interleaved with environment events '
         '(reservation scheduled on the pod\'s node or another / marked unschedulable / expired / deleted / consumed by a workload pod, '
         'optionally re-using the name of a vanished pod; target pod deleted / replaced with a new UID / pending pod scheduled / bound pod '
         'ready; "next healthy step" events), fake-clock advances landing on TTL-1s, TTL, TTL+1s, controller restarts (fresh assumed cache '
         'and reconciler UID over the same API state) and API failures: "skip k writes then fail n", "the n writes right after the next '
         'successful Evict fail", "the next Evict is rejected"; failed writes are either not applied or applied with the response lost. '
         '1-2 jobs (user-made, made through CreatePodMigrationJob, or pointing at a pre-existing Reservation), modes ReservationFirst / '
         'EvictionDirectly (explicit or by controller default), 1-2 pods of one workload. Half of the cases use the "colocated" profile: two '
         'reservation-first jobs whose reservations tend to share a node and an eviction-time failure armed from the start. A dedicated '
         'action (and a bias in the "next healthy step" action) produces the ordering: scheduler reports the reservation unschedulable -> '
         'a reconcile records ReservationScheduled=False on the job -> the reservation is later scheduled on the target pod\'s own node -> '
         'reconcile (class unschedulable-recorded-then-scheduled-on-pod-node-then-reconciled, ~5 % of reservation-first cases). '
         'TestVerifC17UserInput runs the same machine over jobs the way users write them: spec.reservationOptions.reservationRef '
         'naming a prepared (pending, allocate-once) Reservation without UID (2/3 of its jobs), spec.podRef without a name, deadlines '
         'given and reached more often. Every PodMigrationJob status write that reaches the API is observed through the client wrapper '
         '(also writes whose response is lost), so clause 2 is checked over the write history, not only at the end of a reconcile. '
         'TestVerifC17Extended adds target pods that have no node yet (Pending, no PodScheduled condition; they take the evict flow) and '
         'may be placed later by consuming a reservation of the workload - the job\'s own or another co-located one -, 1-3 rejected '
         'Evict calls armed from the start, and in half of its cases a reservation interpreter offering the Preemption() extension '
         'point (real interpreter wrapped; objects report NeedPreemption; scheduler may give up on a reservation: phase Failed + '
         'Scheduled=False/Unschedulable; Preempt answers from a model not-started/in-progress/complete with the incomplete shapes '
         '(false,zero,nil) / (false,RequeueAfter,nil) / (false,_,err); an environment event completes the preemption). For such a '
         'reservation an Evict is accepted only once the preemption has completed. '
         'UserInput also writes spec.reservationOptions.template with spec.allocateOnce false / nil / true (the controller creates the '
         'Reservation from it) and lets a scaled-out replica consume such a reservation before the job has evicted; the environment '
         'follows the scheduler\'s syncStatus: currentOwners always, phase Succeeded only for allocate-once (nil = true), otherwise the '
         'reservation stays Available with owners. In Extended a third of the jobs\' reservations report NeedPreemption()=false (Preempt, '
         'if asked for one, answers "nothing to preempt, complete"; that never counts as capacity secured). '
         'Extended also runs rounds of the controller\'s scavenger (Reconciler.doScavenge) with a profile in which a job made through '
         'CreatePodMigrationJob outlives its controller instance (restart -> clock to TTL+5m -> scavenger round); oracle: after a round '
         'without API errors no job with a TTL that is expired for >= 5 minutes (the scavenger\'s own grace, taken as tolerance) still '
         'has its referenced Reservation. With the preemption interpreter a "full cluster" profile (no API errors, graceful pod '
         'termination, nothing placed without preemption) walks given-up -> preempted -> evicted -> the scheduler re-words its '
         'unschedulable report while the evicted pod still exists -> reconcile. '
         'non-trivial = the job\'s reservation changes state between two reconciles of a Running job, or an API write fails right after a '
         'successful Evict. distinct = FNV-64 fingerprint of the full history.',
 'assumptions': ['API = controller-runtime fake client with status subresources for PodMigrationJob and Reservation, plus server-side UID / '
                 'creationTimestamp on create; reads are never stale and never fail (only writes and Evict are failed)',
                 'the reservation interpreter is the real one (reservation.NewInterpreter) over that client; it has no preemption path, so '
                 '"or preemption has completed" is not exercised in this tree',
                 'environment makes only transitions koord-scheduler makes: pending -> unschedulable-marked -> Available(node) -> '
                 'Succeeded+CurrentOwners in one status update (allocate-once) or Failed/Expired (assigned reservations only); '
                 'Succeeded/Failed are final; a pod of the workload that lands on a node holding one of the reservations consumes one of '
                 'them in the same step; nothing changes during a Reconcile call',
                 'object limiters are switched off (they read the wall clock via rate.Limiter and can only postpone a job); jobs are not '
                 'paused or deleted; Reconcile only (scavenger / arbitrator not driven)',
                 '"an expired job deletes its reservation" is read as: a job failed with reason Timeout leaves no Reservation under the '
                 'reference persisted in its spec; a Reservation whose reference was never persisted (job update failed) is counted, not asserted',
                 'the given-up reservation state and the Preemption interpreter exist only in TestVerifC17Extended (stock koord-scheduler / stock interpreter never produce them)',
                 'TestVerifC17OwnersPruned assumes some writer prunes status.currentOwners when the consuming pod goes away although the reservation is already Succeeded (this tree\'s scheduler controller stops syncing Succeeded reservations; the migration controller explicitly treats Succeeded-without-bound-pod as taken)',
                 'a rejected Evict call counts as an API error for the "at most once without API errors" clause'],
 'units': [{'name': 'migration',
            'pkg': 'pkg/descheduler/controllers/migration',
            'files': ['C17/c17_migration_test.go'],
            'tests': [{'run': 'TestVerifC17History', 'quick': 600, 'quick_shards': 3, 'thorough': 3000, 'steps': 50},
                      {'run': 'TestVerifC17UserInput', 'quick': 600, 'quick_shards': 2, 'thorough': 3000, 'shards': 4, 'steps': 50},
                      {'run': 'TestVerifC17Extended', 'quick': 600, 'quick_shards': 3, 'thorough': 3000, 'shards': 4, 'steps': 50},
                      {'run': 'TestVerifC17OwnersPruned', 'quick': 600, 'quick_shards': 1, 'thorough': 3000, 'shards': 2, 'steps': 50}]}],
 'manifest': {'technique': 'property-based testing (rapid): state-machine histories of reconcile / environment / clock / restart / '
                           'fault-injection actions against the real controller, with a recording evictor and an independent oracle on the raw API objects',
              'text': 'Generated-history search: every Evict call of a reservation-first job is stamped with the persisted Reservation and pod '
                      'at that instant and must find the Reservation present, Available, scheduled on a node other than the pod\'s, not '
                      'pending / unschedulable / expired and not held by another pod; once Succeeded or Failed has been written for a job no later '
                      'status write (even inside the same reconcile) may carry another phase and no Evict / CreateReservation may follow; a job failed by TTL must leave no Reservation under '
                      'its reference; in histories where no API call failed a job issues Evict at most once. Exploration, not proof: absence '
                      'of violations over the sampled histories.',
              'note': 'fake API without stale reads; no preemption path in this tree; object limiters off; environment restricted to '
                      'transitions the scheduler really makes; rapid\'s PRNG and shrinker'}}
