# C01 registry entry: see lib/registry.py for the field meanings
PROP = {'rule': 'placeholder',
 'assumptions': [],
 'units': [{'name': 'core',
            'pkg': 'pkg/scheduler/plugins/elasticquota/core',
            'files': ['C01/c01_core_test.go'],
            'tests': [{'run': 'TestVerifC01CoreHistory', 'quick': 400, 'thorough': 3000, 'steps': 40}]}],
 'manifest': {'technique': 'property-based testing (rapid)', 'text': 'placeholder', 'note': 'placeholder'}}
