# C01 registry entry: see lib/registry.py for the field meanings
PROP = {'rule': 'rapid state machine over GroupQuotaManager (unit core: the plugin\'s handler calls restated on a bare manager; unit plugin: '
         'the same histories through the real Plugin.OnQuota*/OnPod*/Reserve/Unreserve/migrateDefaultQuotaGroupsPod). Universe: quotas '
         'q0..q5 + default + system, depth <= 4, one dimension set {cpu, memory} for every quota, min <= max, lent flag, shared weight; '
         'pods p0..p7 with 1-2 containers (+ optional init container, + a dimension no quota declares), optional preemptible=false. '
         'Operations: quotaCreate, quotaUpdate(max|min|weight), toggle allow-lent / is-parent (full rebuild path), quotaReparent, quotaDelete '
         '(pods removed first, or - orphans mode - still inside), podAdd (also already bound / terminating), podUpdate(resize | relabel | bind | '
         'terminate | touch), podDelete, reserve, unreserve, migrate cycle (default -> quota), node add/update/delete, ResetQuota, RefreshRuntime. '
         'Informer semantics: update/delete always carry the object last delivered; unique pod keys; parents exist before children; no parent '
         'cycles; no Succeeded/Failed pods (the scheduler\'s pod informer filters them). After EVERY operation GetQuotaSummaries(true) is '
         'compared with a from-scratch recomputation (request = sum of pods + sum of min(childRequest, childMax), raised to min when the group '
         'does not lend; used = assigned pods of the subtree; non-preemptible variants; pod cache membership and isAssigned), and at the end '
         'of the run and after every ResetQuota with a fresh manager fed the final objects. A case is non-trivial if it re-parents or deletes a '
         'quota whose subtree holds an assigned pod, or some group\'s request exceeded its max (clamped branch) during the run; distinct = '
         'FNV-64 of the operation history. Unit coreConcurrent (-race): fixed tree, per-pod event scripts on distinct pods merged onto 2-8 '
         'goroutines + a quota max/min/weight retuner + a reader, released together and joined; final summaries must equal the recomputation '
         'and a fresh manager; non-trivial = >= 2 goroutines with pod operations and >= 6 calls. Units coreParkedReserve / '
         'pluginParkedReserve: the same state machine and oracle with the generator aimed at pods created BEFORE their quota (parked in '
         'the default quota, rare migrate cycle, quota creation prefers awaited names) and Reserve/Unreserve also issued while a pod is '
         'parked, including after its own quota has appeared (the plugin then routes the call to that quota); where such a reservation '
         'is charged (default or own quota) follows the manager, everything else is asserted; non-trivial = a reservation taken or rolled '
         'back while the pod is parked. Units coreMigrateRace / pluginMigrateRace: the parked-pod generator with the migrate cycle always '
         'run in its two steps (snapshot of the default quota\'s pod cache, then the loop body per pod - for the plugin unit '
         'migrateDefaultQuotaGroupsPod split at that point, routing by the plugin) and, with probability 1/2 per pod, one generated event '
         '(reserve / unreserve / pod update / pod delete on a snapshot pod) delivered in between, as the scheduling cycle and the informer '
         'do while the migration goroutine walks its snapshot; model: a pod moves iff at that moment it is still counted in the default '
         'quota and the label of its last delivered object names an existing quota; non-trivial = a migrate step for a pod that was moved, '
         'deleted or updated since the snapshot. In every plugin unit about half of the quota and pod deletes are delivered as '
         'cache.DeletedFinalStateUnknown{Key, Obj} values (tombstones; which ones is derived from the object\'s name and resource version, '
         'not drawn). Unit pluginMultiTree: the history state machine under feature gate MultiQuotaTree (set per case, reset after): a '
         'top-level quota may open its own quota tree t1/t2 (tree-id + is-root labels, own manager without default quota), children '
         'inherit the tree, a quota never changes its tree; pods are routed by quota name to the tree\'s manager, pods created before '
         'their tree quota wait in the default quota of the default tree and are carried over by the migrate cycle (run right after each '
         'quota creation in 3/4 of the cases); the oracle reads GetQuotaSummaries(true) of EVERY tree manager: each quota reported by '
         'exactly its tree\'s manager, each pod counted in exactly one quota of one tree, all figures recomputed from scratch, and a fresh '
         'manager per tree at the end; non-trivial = a pod carried into another tree by the migrate cycle or moved between trees by a '
         'relabel. Unit coreConcurrentBurst (no -race): chain root <- 1-3 ancestors <- leaf with max 2-12 units, a '
         'base load, 2-6 goroutines each owning 1-2 pods and applying a generated pattern of add/resize/delete events (sizes 1, 2, '
         'gap-to-max, gap+1, max) repeated 1-400 times so the leaf keeps crossing its max; all joined, then the same oracle at quiescence; '
         'non-trivial = a goroutine that both grows and shrinks (>= 50 calls), >= 2 growing goroutines, >= 200 calls.',
 'assumptions': ['all quotas of a run declare exactly {cpu, memory} in max (the statement\'s precondition); child min sums are not constrained '
                 '(the webhook allows that with the allow-force-update label)',
                 'a quota is deleted only when it has no child quotas (webhook rule); re-parenting never creates a cycle (C15\'s subject)',
                 'Reserve/Unreserve receive the pod object last delivered by the informer (with NodeName filled in, as the scheduling cycle '
                 'does); Unreserve is only issued for a pod that was reserved and is not yet seen bound; Reserve/Unreserve are not issued for '
                 'a pod that is still parked in the default quota although its own quota exists',
                 '"assigned" is the manager\'s notion restated: reserved, or seen with a node name (not terminated), until unreserved / '
                 'deleted / moved to another quota by a label change (then: has a node name)',
                 'the abstract root group (not part of GetQuotaSummaries) is observed but not asserted: after a rebuild it is charged the '
                 'default/system quota\'s unclamped request, incrementally the clamped one (class root-group-differs)',
                 'terminating pods are dropped only under feature gate ElasticQuotaImmediateIgnoreTerminatingPod (set per case, reset after); '
                 'the wall-clock variant of that gate is not exercised',
                 'concurrency: the partition onto goroutines and the per-goroutine merge order are generated, the Go scheduler decides the '
                 'rest; -race plus the commutativity oracle sample the interleavings, they do not enumerate them',
                 'coreConcurrentBurst is schedule-dependent: its verdict on correct code is not (the final live pod set is fixed by the '
                 'generated lists, each pod belongs to one goroutine, the oracle runs after all goroutines are joined), but whether a lost '
                 'update between concurrent pod events is provoked depends on the Go scheduler and the machine load; detection is '
                 'probabilistic and needs GOMAXPROCS >= 2 (the driver sets 16)',
                 'the interleaving of the migrate cycle with other events is harness-owned and at the granularity of whole manager calls '
                 '(each takes the manager\'s lock): snapshot, optional event, per-pod migrate step',
                 'multi-tree unit: tree ids are fixed per quota, the root quota of a tree is neither re-parented nor turned into a leaf; '
                 'the abstract root groups of the trees are not asserted',
                 'parked-reserve units only: Reserve is also issued for a pod that is already bound and assigned (a late scheduling attempt '
                 'whose cycle started before the informer delivered the bound pod - e.g. an earlier bind that looked failed to the scheduler '
                 'but went through); it must leave the pod counted exactly once. Unreserve is still never issued for a bound pod',
                 'for a pod reserved while it is parked in the default quota although its own quota already exists, either quota is accepted '
                 'as the place where the reservation is charged (the statement does not fix it); it must be charged exactly once'],
 'units': [{'name': 'core',
            'pkg': 'pkg/scheduler/plugins/elasticquota/core',
            'files': ['C01/c01_model_core_test.go', 'C01/c01_core_test.go'],
            'tests': [{'run': 'TestVerifC01CoreHistory', 'quick': 500, 'quick_shards': 2, 'thorough': 3000, 'steps': 40},
                      {'run': 'TestVerifC01Concurrent', 'quick': 150, 'thorough': 400, 'shards': 6, 'race': True},
                      {'run': 'TestVerifC01CoreParked', 'quick': 400, 'thorough': 2000, 'shards': 6, 'steps': 30},
                      {'run': 'TestVerifC01CoreMigrateRace', 'quick': 300, 'thorough': 2000, 'shards': 6, 'steps': 30},
                      {'run': 'TestVerifC01ConcurrentBurst', 'quick': 150, 'quick_shards': 2, 'thorough': 600, 'shards': 6}]},
           {'name': 'plugin',
            'pkg': 'pkg/scheduler/plugins/elasticquota',
            'files': ['C01/c01_model_plugin_test.go', 'C01/c01_plugin_test.go'],
            'tests': [{'run': 'TestVerifC01PluginHistory', 'quick': 300, 'thorough': 1500, 'shards': 6, 'steps': 40},
                      {'run': 'TestVerifC01PluginParked', 'quick': 200, 'thorough': 1000, 'shards': 4, 'steps': 30},
                      {'run': 'TestVerifC01PluginMigrateRace', 'quick': 200, 'thorough': 1000, 'shards': 4, 'steps': 30},
                      {'run': 'TestVerifC01PluginMultiTree', 'quick': 300, 'thorough': 1500, 'shards': 6, 'steps': 40}]}],
 'manifest': {'technique': 'property-based testing (rapid): model-based state machine over quota/pod/node event histories with a from-scratch '
                           'reference recomputation and a fresh-instance differential; concurrent variant under the race detector',
              'text': 'Generated-input search: histories of quota create/update/re-parent/delete, pod add/update/move/delete, '
                      'reserve/unreserve, default-quota migration, node events and rebuilds are applied to GroupQuotaManager (directly and '
                      'through the real Plugin event handlers); after every operation every group\'s used/request/childRequest/self*/'
                      'non-preemptible figures and pod-cache membership are compared with an independent recomputation from the surviving '
                      'objects, and at the end with a fresh manager fed the final objects. A concurrent variant issues pod operations on '
                      'distinct pods from 2-8 goroutines under -race and requires the sequential model\'s final state. Exploration, not '
                      'proof: absence of violations over the sampled histories and interleavings.',
              'note': 'fixed dimension set {cpu, memory}; webhook-valid trees (no cycles, parents before children, delete only childless '
                      'quotas); informer event semantics assumed; root group not asserted; interleavings are sampled (Go scheduler), not '
                      'enumerated; rapid\'s PRNG and shrinker; Go map iteration inside koordinator is not controlled'}}
