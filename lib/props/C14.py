# C14 registry entry: see lib/registry.py for the field meanings
from lib.registry import PERF_STUB  # noqa: E402  (registry imports this file by path; lib is on sys.path via the driver)

PROP = {}
