# C14 registry entry: see lib/registry.py for the field meanings
PROP = {'rule': 'rapid-generated cases. A case = one webhook-mutated pod (1-5 regular + 0-2 init containers; batch-cpu request/limit in '
         '{missing, 0, 1..12, 999, 1000, 1001, 1500, 1..64000, around 256000 (cpu.shares maximum), up to 2^40}, batch-memory '
         'request/limit in {missing, 0, 1, 4Ki, .. 2^50}; request <= limit; pod shapes free / all-limited / tiny (sub-minimum quotas) / '
         'one-unlimited; the extended-resource-spec annotation exactly as the mutating webhook writes it) with a QoS marking (label BE / '
         'label LS,LSR,LSE,SYSTEM / no label, optionally BE written in an annotation or batch priority class) and a sequence of 0-4 rule '
         'updates applied in drawn order before the hooks run (parseRuleForNodeMeta with a node whose ratio annotation is missing / illegal / '
         'a valid number with 0, 2 or 4 decimals, often within +-0.02 of the previous one; parseRuleForNodeSLO with a suppress strategy; a '
         'minority of direct UpdateCFSQuotaEnabled / UpdateCPUNormalizationRatio calls with arbitrary floats); the oracle uses the '
         'configuration effective after the sequence, from a reference model of the rule (first ratio always stored, later one stored iff '
         '|stored-new| >= 0.01, missing annotation = -1 is a regular update, illegal annotation keeps the stored ratio, last CFS switch wins). Every case is driven '
         'through the plugin three ways: runtime-proxy requests (FromProxy), NRI requests (FromNri), reconciler PodMeta (FromReconciler; '
         'per-cgroup-file entry points or the aggregated ones). non-trivial = pod treated as BE AND >= 2 containers handed to the '
         'pod-level hook AND (a container whose quota is below the 1000 us minimum with CFS quota enabled OR a container without cpu or '
         'memory limit). distinct = FNV-64 fingerprint of the pod and rule description. staleAnnotation: the same pods and rule sequences, but the '
         'annotation is replaced by one the webhook would not write for the spec (absent / {} / not JSON / entries of declaring containers '
         'dropped, given other amounts or stripped of limits / an entry for a non-existent container), reconciler path only; non-trivial = '
         'BE pod with >= 1 declaring container whose annotation differs from the right one. webhookAnnotation: CREATE of pods with 1-4 '
         'containers carrying batch (and other) resources that already bring an annotation along (none / empty / not JSON / right / '
         'edited: container dropped, limits or requests dropped, a limit or request changed or added, unknown container added) through '
         'extendedResourceSpecMutatingPod; non-trivial = admitted pod with >= 1 declaring container whose submitted annotation is not the right one. '
         'applied: the same pods and rule sequences; the reconciler entry points followed by ReconcilerDone write through the real resource '
         'updaters onto a scratch cgroup tree (cgroup-v1 or v2 layout, files previously limited or unlimited) and the files are read back '
         '(unlimited = -1 on v1, max on v2); NriDone must hand quota (also -1), shares and memory limit to the runtime; then an optional '
         'change of the node ratio annotation through parseRuleForNodeMeta + ruleUpdateCbForNodeMeta (v1 layout) after which pod and every '
         'configured container must hold the quota of the new ratio. non-trivial = BE pod with >= 1 declaring container that is unlimited in '
         'memory or cpu at pod level or partially limited (some containers with a cpu limit, some without).',
 'assumptions': ['pkg/koordlet/util/perf_group/perf_group_linux.go is replaced (build overlay only) by a cgo-free stand-in with the same '
                 'exported surface, because libpfm4 headers are not installed; no oracle touches perf counters',
                 'best-effort = pod label koordinator.sh/qosClass=BE (the only marking apis/extension.GetQoSClassByAttrs reads; its '
                 'annotations argument is unused in this tree). Pods without the label (BE only in an annotation / priority class, or kube '
                 'BestEffort by default) are accepted both untouched and fully configured as BE, nothing in between',
                 'webhook-mutated pods are built directly from the documented contract of pkg/webhook/pod/mutating (functions unexported in '
                 'another package): integer batch quantities, request <= limit, annotation lists the regular containers that declare at '
                 'least one batch resource, absent limit = absent key',
                 'staleAnnotation: annotation entries are keyed only by declaring regular containers or by names absent from the pod, because '
                 'for a container that declares nothing the reconciler deliberately falls back to the annotation (outside the statement); '
                 'proxy/NRI requests carry only the annotation and are not asserted against a disagreeing spec',
                 'webhookAnnotation: the annotation is compared by value (quantity Cmp) after plain JSON decoding; a refused admission '
                 '(undecodable submitted annotation) is not asserted',
                 'applied: plain files stand in for the kernel (no hierarchy constraints, cpu.max keeps only what was written: the first field is '
                 'compared); cpu.weight on v2 is not compared; the ratio-change callback is exercised on the v1 layout only; the singleton '
                 'resource executor is shared by the cases of a run, every case uses its own cgroup directory',
                 'cpu amounts are capped at 2^40 milli-cores per container so that milli*100000 cannot overflow int64 (not a real node size)',
                 'ratio scaling: ceil(quota/ratio) is computed in float64 by the code; accepted interval x(1-2^-50) <= got <= x(1+2^-50)+1 '
                 'with x = quota/ratio in exact rational arithmetic; a scaled value below 1000 us may also be re-clamped to 1000',
                 'ratioDiffEpsilon hysteresis is modelled as documented (an update closer than 0.01 to the stored ratio keeps the stored one); the '
                 'code decides the boundary in float64, so an update within 1e-9 of exactly 0.01 away is accepted both as taken and as ignored'],
 'units': [{'name': 'batchresource',
            'pkg': 'pkg/koordlet/runtimehooks/hooks/batchresource',
            'files': ['C14/c14_batchresource_test.go', 'C14/c14_stale_annotation_test.go', 'C14/c14_applied_test.go'],
            'tests': [{'run': 'TestVerifC14Hooks', 'quick': 10000, 'thorough': 25000},
                      # reconciler path with an annotation that disagrees with pod.spec (absent / stale / hand-written): the declared
                      # amounts of the pod object must win for pod level and container level alike
                      {'run': 'TestVerifC14StaleAnnotation', 'quick': 5000, 'thorough': 15000},
                      # last mile: injected values through the real updaters onto a scratch cgroup tree (v1 and v2), the NRI
                      # adjustment built by NriDone, and the ratio-change callback ruleUpdateCbForNodeMeta
                      {'run': 'TestVerifC14Applied', 'quick': 1200, 'thorough': 5000, 'shrinktime': '10s'}]},
           # the statement's input is "a request built from a webhook-mutated pod": the per-container summary annotation the hooks
           # read is written by pkg/webhook/pod/mutating/extended_resource_spec.go (one of C14's anchors). That step is checked by
           # the C13 mutating harness (annotation decodes to exactly the batch entries of the final spec), run here as a C14 unit.
           {'name': 'webhook-annotation',
            'pkg': 'pkg/webhook/pod/mutating',
            'files': ['C13/c13_mutating_test.go', 'C14/c14_webhook_annotation_test.go'],
            'tests': [{'run': 'TestVerifC13Mutating', 'quick': 2000, 'thorough': 8000, 'shrinktime': '15s', 'env': {'GOGC': '400'}},
                      # CREATE of pods that already bring an extended-resource-spec annotation along (right / empty / edited in
                      # requests, limits, container set): afterwards the annotation must equal the declared batch amounts by value
                      {'run': 'TestVerifC14WebhookAnnotation', 'quick': 5000, 'thorough': 15000}]}],
 'manifest': {'technique': 'property-based testing (rapid): generated webhook-mutated pods x rule configurations, driven through the '
                           'proxy, NRI and reconciler entry points, with an independent re-statement of the cgroup conversions as oracle '
                           'and output-vs-output relations between pod level and container level',
              'text': 'Generated-input search: for every BE pod each injected container value (cpu.shares, cfs quota, memory limit) must '
                      'equal the re-stated standard conversion of that container\'s declared batch amounts (-1 when undeclared, quota '
                      'divided by a normalization ratio above 1), the pod-level values must equal the same conversion of the sums over the '
                      'containers handed to the hook (unlimited as soon as one is), the pod must never be tighter than any container the hook '
                      'configured on the same path (regular and init containers) and must equal their sum up to rounding and minimum '
                      'clamps; pods labelled with another QoS class must come back with an empty response. On the reconciler path the same holds '
                      'against the amounts declared in pod.spec when the annotation is absent, stale or hand-written; and after a CREATE went '
                      'through the webhook the annotation equals the declared batch requests and limits whatever annotation was submitted. Exploration, not proof: '
                      'absence of violations over the sampled cases.',
              'note': 'BE = QoS label; mutated pods constructed from the webhook contract rather than by calling the webhook; float64 '
                      'ceil tolerance of 1 us; perf_group cgo stub in the build overlay; rapid\'s PRNG and shrinker'}}
