# C05 registry entry: see lib/registry.py for the field meanings
PROP = {'rule': 'rapid-generated cases. ownerMatch: 0-3 owners (object ref / controller ref / label selector, any combination incl. the '
         'empty owner) x pod (name, namespace, uid, labels, 0-2 owner references) over small value pools; non-trivial = an owner with '
         '>=2 selectors ANDed or >=2 owners ORed. distinct = FNV-64 fingerprint of the full case.',
 'assumptions': ['owner specifications are syntactically valid label selectors (what the API server admits)'],
 'units': [{'name': 'plugin',
            'pkg': 'pkg/scheduler/plugins/reservation',
            'files': ['C05/c05_cache_test.go'],
            'tests': [{'run': 'TestVerifC05CacheHistory', 'quick': 1500, 'thorough': 6000, 'steps': 40},
                      {'run': 'TestVerifC05Fit', 'quick': 4000, 'thorough': 30000}]},
           {'name': 'owners',
            'pkg': 'pkg/util/reservation',
            'files': ['C05/c05_owner_test.go'],
            'tests': [{'run': 'TestVerifC05OwnerMatch', 'quick': 4000, 'thorough': 30000}]}],
 'manifest': {'technique': 'property-based testing (rapid)',
              'text': 'wip',
              'note': 'wip'}}
