# C05 registry entry: see lib/registry.py for the field meanings
PROP = {'rule': 'rapid-generated cases. cacheHistory: state machine (~40 steps) over 1-3 nodes, up to 5 reservations (allocate-once or not, '
         'Default/Aligned/Restricted with optional restricted-resources option, inner-reserved annotation, labels, selector index on/off) '
         'and up to 10 pods with arbitrary requests, driven through reservationEventHandler.On*, podEventHandler.On*, '
         'the reservation\'s own Plugin.Reserve/Plugin.Unreserve of its reserve pod (real Plugin over the cache under test, lister fed '
         'through the informer indexer, Unreserve also after the API delete), assumePod/forgetPods and the global handler\'s '
         'DeleteReservation (before, after or delayed behind the plugin handler); reservation updates also narrow/widen/remove the '
         'restricted-resources option and resize status.allocatable to another dimension set, the oracle masks to the CURRENT counted '
         'dimensions; every snapshot the cache hands out (getReservationInfoByUID) is kept for three operations and must keep reporting the '
         'assigned pods and allocated amounts the model gave it when taken; non-trivial = history contains assign -> reservation becomes unavailable/unmatchable -> unassign, '
         'or a reservation deleted while holding pods. fit: (reserved dims incl. optional pods, policy, restricted option, inner reserved, '
         '0-3 pods assigned through AddAssignedPod, preemptible amounts, request aimed at the exact boundary); non-trivial = some counted '
         'dimension requested within 1 unit of the remaining room. fitFractional: the same fit check (Restricted, 0-2 assigned pods) on amounts drawn in milli-units: status.allocatable, memory and cpu requests arbitrary milli amounts, extended-resource requests whole pieces; non-trivial = a boundary request on a non-cpu dimension where the reserved, allocated or requested amount is not a whole unit. nominate: 1-3 reservations on 2 nodes, 2-5 scheduling cycles '
         '(BeforePreFilter, PreFilter, Filter, optional PreScore, Reserve) with reservation-update / bind / Unreserve / pod-delete / '
         'reservation-succeeded events in between, Unreserve alternately before and after the plugin\'s own PreBind, and a ledger check (assigned set and allocated == sum of the model pods) after every cycle and event; non-trivial = a cycle whose pod has reservation affinity and exactly one matched '
         'reservation on the chosen node. multiProfile: 1-3 scheduler profiles, each with its own real Reservation plugin and cache, '
         'all fed the same generated reservation add / bind / update / terminate / rollback / delete events (and a few assigned pods) through '
         'each plugin\'s own handler and through the real global handler captured from eventhandlers.AddScheduleEventHandler, the global '
         'handler at a drawn position among them; non-trivial = >=2 profiles and an API delete of a reservation that is Available (held by '
         'every profile) at that moment. preAllocation: one pre-allocation reservation (default mode, single or multiple, required or not) '
         'with 1-3 owner terms of mixed shape (selector / selector+controller / controller / selector+object / object) and 1-5 running pods '
         '(app label, ReplicaSet controller, node, size, some already reservation-allocated) fed through the pod lister; the reserve pod runs '
         'BeforePreFilter, PreFilter, Filter, Reserve; non-trivial = a candidate pod that satisfies the selector of one term and the references '
         'of another but no whole term. ownerMatch: 0-3 owners (object ref / controller ref / label selector, any combination incl. '
         'the empty owner) x pod (name, namespace, uid, labels, 0-2 owner references) over small value pools; non-trivial = an owner with '
         '>=2 selectors ANDed or >=2 owners ORed. distinct = FNV-64 fingerprint of the full case (history).',
 'assumptions': ['a reservation never changes node once Available; amounts, reserved dimension set, restricted-resources option, labels, '
                 'phase, unschedulable, deletionTimestamp change freely (no webhook or CRD rule forbids it); the currently counted '
                 'dimensions are those of status.allocatable while Available and of the template otherwise (ReservationRequests), '
                 'narrowed by the restricted-resources option under the Restricted policy',
                 'pod events name a reservation that is in the cache at that moment, or one that never is (the pod and reservation informers '
                 'are independent; a pod event overtaking the add of its reservation is not generated)',
                 'per reservation event the plugin handler and the global frameworkext handler both run, in either order; the global '
                 'DeleteReservation may additionally be delayed behind later pod events, but the plugin handler never lags the global '
                 'handler by more than the current event',
                 'multiProfile: "no longer exists" is asserted for reservations deleted from the API; a reservation that still exists but is no '
                 'longer Available on a node (terminated, rolled back) and is still known to some profile is only counted',
                 'requests are whole milli-cores / bytes / pieces in every unit but fitFractional, which draws milli amounts for memory requests and for status.allocatable (the API server admits fractional memory with a warning and nothing validates a Reservation status) while extended-resource requests stay whole pieces; milli-unit integer arithmetic is exact in both',
                 'owner specifications are syntactically valid label selectors; reservation-operating-mode pods and the cluster '
                 'pre-allocation mode are not generated',
                 'the fit check is asserted in both directions (accepted iff every counted dimension and the pods dimension fit); the '
                 'statement itself only requires the "accepted only if" direction (signatures fit:accepted-* / fit:restricted-admitted-*)'],
 'units': [{'name': 'plugin',
            'pkg': 'pkg/scheduler/plugins/reservation',
            'files': ['C05/c05_cache_test.go', 'C05/c05_nominate_test.go', 'C05/c05_multiprofile_test.go', 'C05/c05_prealloc_test.go', 'C05/c05_fitfrac_test.go'],
            'tests': [{'run': 'TestVerifC05CacheHistory', 'quick': 4000, 'thorough': 20000, 'steps': 40},
                      {'run': 'TestVerifC05Fit', 'quick': 10000, 'thorough': 80000},
                      {'run': 'TestVerifC05FitFractional', 'quick': 10000, 'thorough': 80000},
                      {'run': 'TestVerifC05Nominate', 'quick': 2000, 'thorough': 8000},
                      {'run': 'TestVerifC05MultiProfile', 'quick': 2000, 'thorough': 8000, 'steps': 25},
                      {'run': 'TestVerifC05PreAllocation', 'quick': 3000, 'thorough': 12000}]},
           {'name': 'owners',
            'pkg': 'pkg/util/reservation',
            'files': ['C05/c05_owner_test.go'],
            'tests': [{'run': 'TestVerifC05OwnerMatch', 'quick': 10000, 'thorough': 80000}]}],
 'manifest': {'technique': 'property-based testing (rapid): model-based state machine over the reservation cache event handlers, '
                           'boundary-aimed generated inputs with an exact integer oracle for the fit check, generated scheduling '
                           'cycles, and a differential against an independent owner matcher',
              'text': 'Generated-history search: after every add/update/delete of reservations and assume/forget/add/update/delete of '
                      'pods (through the real informer handlers, incl. duplicate, delayed and re-ordered handler invocations) each '
                      'reservation\'s Allocated and pre-calculated AllocatedResource are compared with the sum of the model\'s assigned '
                      'pods masked to the reserved dimensions, and reservationsOnNode / matchableOnNode / allocatedOnNode / the label '
                      'index and their read APIs are checked for dangling entries and for listing every live (matchable, allocated) '
                      'reservation of the node. fitsReservation / fitsNodeAndReservation verdicts are compared with an exact big-integer '
                      'predicate on requests placed at, one below and one above the remaining room. Whole scheduling cycles check that '
                      'the reservation a pod is assumed on satisfies its owner spec (independent matcher), is not an allocate-once '
                      'reservation that already holds a pod, and stays within a Restricted reservation. MatchReservationOwners is '
                      'compared with an independent re-statement of the documented DNF. Exploration, not proof: absence of violations '
                      'over the sampled histories.',
              'note': 'fixed reserved-dimension set per reservation; bounded handler skew (see assumptions); Go map iteration inside '
                      'koordinator (which of several equally scored reservations is nominated) is not controlled; rapid\'s PRNG and '
                      'shrinker'}}
