# C13 registry entry: see lib/registry.py for the field meanings
PROP = {'rule': 'rapid-generated cases. validating: a pod (QoS label in {LSE,LSR,LS,BE,SYSTEM,absent/empty,junk} x priority class in '
         '{prod,mid,batch,free,none} expressed by the class label, by spec.priority on/inside the range boundaries, by values between the '
         'ranges, by an unknown label, with label and value disagreeing; 1-3 containers, 0-2 init containers incl. sidecars, overhead, '
         'optional pod-level requests; cpu from {absent, 0, 1m, 0.0005, 0.5, whole, whole+-1n/+-0.5m/+-1m, random milli/nano, other '
         'spellings}, memory with decimal/binary suffixes and fractions; batch/mid resources requested directly), as a create or as an '
         'update whose new object is the old one after 0-2 edits (QoS label, class label, priority value within/across ranges, '
         'sub-priority label, resources, unrelated label) and both objects carry lifecycle metadata that must not matter (deletionTimestamp on '
         'both / only the new object in ~50 % of updates, grace period, finalizers kept/removed/added, owner reference, status phase, '
         'nodeName); non-trivial = exactly one rule of the statement is broken, or nothing is '
         'broken and the pod is BE/LSR/LSE or requests batch resources (a rule is decisive for the verdict). mutating: a pod (same '
         'quantity domains, limit-without-request / request-only / differing shapes, extended and unrelated resources declared directly, '
         'optional stale summary annotation) admitted against a fake cluster with one namespace, five PriorityClasses with values on and '
         'between the class ranges, 0-3 matching and 0-2 non-matching ClusterColocationProfiles (selectors, namespace selectors, '
         'qosClass, priorityClassName, labels incl. the class label, annotations, key mappings, koordinatorPriority, schedulerName, '
         'probability with the random roll as a case input, skip-update-resources, label patch); after the main admission the same pod (original object, and admitted object) is admitted again as a create while '
         'carrying a tampered copy of the true summary annotation (superset with an extra batch or foreign entry in an existing '
         'container, changed amount, removed entry, extra container, respelled amounts, the truth, or something undecodable: truncated / wrong type / bad quantity / not JSON / empty) and, '
         'unless the admission is refused, the annotation must again be decodable and match the final spec; non-trivial = the pod was translated '
         '(mid/batch) and has a fractional or sub-milli cpu amount or a container with a limit but no request. distinct = FNV-64 of the '
         'full case.',
 'assumptions': ['priority class of a pod = the koordinator.sh/priority-class label when present (unknown name = no class), else the '
                 'documented spec.priority ranges prod 9000-9999, mid 7000-7999, batch 5000-5999, free 3000-3999; QoS class = the '
                 'koordinator.sh/qosClass label when it is one of the five names',
                 '"requests a whole number of CPUs" is judged on the pod\'s effective cpu request by the Kubernetes rule '
                 '(max(sum containers + sidecars, init peaks), pod-level request if declared, plus overhead), non-zero, in milli-cores '
                 'rounded up (0.9995 counts as 1000m)',
                 '"requests batch resources" = non-zero batch-cpu or batch-memory in the pod\'s effective request',
                 'the validator unit is fully modelled (statement rules + the sub-priority-label immutability behind its feature gate), so '
                 'the check is two-directional on clusterColocationProfileValidatingPod; a denial by another validator of the handler is '
                 'out of scope',
                 'translation is required when >=1 profile matched, none of them carries skip-update-resources, the gate '
                 'ColocationProfileSkipMutatingResources is off and the admitted pod\'s priority class is mid or batch; for a pod with no '
                 'priority class and QoS BE/none (tier derived from QoS) both "translated as batch" and "left alone" are accepted; '
                 'otherwise resources must be unchanged',
                 'cpu is kept in milli-cores rounded up (Quantity.MilliValue); where one list declares both the native and the extended '
                 'name the translated native amount must be the one that survives (the statement is about the translated cpu/memory); a limit without a request gives the request the limit\'s amount',
                 'the summary annotation is compared on batch-cpu/batch-memory of spec.containers (what the code documents); mid entries '
                 'and init containers missing from it are counted, not asserted',
                 'LabelSuffixes profiles are not generated (they append on every admission by design); profile selectors use label keys '
                 'no profile injects'],
 'units': [{'name': 'validating',
            'pkg': 'pkg/webhook/pod/validating',
            'files': ['C13/c13_validating_test.go'],
            'tests': [{'run': 'TestVerifC13Validating', 'quick': 4000, 'thorough': 25000}]},
           {'name': 'mutating',
            'pkg': 'pkg/webhook/pod/mutating',
            'files': ['C13/c13_mutating_test.go'],
            'tests': [{'run': 'TestVerifC13Mutating', 'quick': 2000, 'quick_shards': 2, 'thorough': 20000, 'shrinktime': '15s', 'env': {'GOGC': '400'}}]}],
 'manifest': {'technique': 'property-based testing (rapid): generated pods / update pairs against an independent admission predicate, and '
                           'generated pods x colocation-profile sets against an exact-arithmetic model of the tier translation with '
                           'annotation-vs-spec and re-admission (idempotence) relations',
              'text': 'Generated-input search. Validating: the verdict of clusterColocationProfileValidatingPod is compared in both '
                      'directions with a predicate restated from the documentation (permitted QoS x priority pairs, whole-CPU rule on the '
                      'pod\'s effective request in exact rational arithmetic, batch resources only for BE, QoS/priority class immutable '
                      'on update) over all 7x5 QoS x priority cells, creates and old/new update pairs. Mutating: '
                      'clusterColocationProfileMutatingPod + extendedResourceSpecMutatingPod run on JSON-decoded pods against a fake '
                      'client; every request/limit/overhead entry of the result is compared with an exact model (cpu = ceil(milli), '
                      'memory equal as rationals, native entries gone, limit-without-request copied, unrelated resources untouched), '
                      'the extended-resource-spec annotation is decoded independently and compared with the final spec, and the result '
                      'is admitted again (create and update) and must be JSON-identical. Exploration, not proof: absence of violations '
                      'over the sampled cases.',
              'note': 'webhook units called directly as the handler calls them (decode from JSON first); controller-runtime fake client; '
                      'the probability roll of the webhook is injected; rapid\'s PRNG and shrinker; native fuzzing of quantity strings '
                      'not done (quantities are built from an exact generator instead)'}}
