# C20 registry entry: see lib/registry.py for the field meanings
PROP = {'rule': 'TODO',
 'assumptions': [],
 'units': [{'name': 'nodeslo',
            'pkg': 'pkg/slo-controller/nodeslo',
            'files': ['C20/c20_nodeslo_test.go'],
            'tests': [{'run': 'TestVerifC20Threshold', 'quick': 1500, 'thorough': 10000},
                      {'run': 'TestVerifC20ResourceQOS', 'quick': 1500, 'thorough': 10000},
                      {'run': 'TestVerifC20CPUBurst', 'quick': 1500, 'thorough': 10000},
                      {'run': 'TestVerifC20System', 'quick': 1500, 'thorough': 10000},
                      {'run': 'TestVerifC20HostApp', 'quick': 1500, 'thorough': 10000}]}],
 'manifest': {'technique': 'TODO', 'text': 'TODO', 'note': 'TODO'}}
