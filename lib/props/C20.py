# C20 registry entry: see lib/registry.py for the field meanings
PROP = {'rule': 'rapid-generated histories of 1-5 slo-controller ConfigMap events (startup sync with/without a ConfigMap in the informer '
         'cache, create, update, delete) driven through SLOCfgHandlerForConfigMapEvent.Create/Update/Delete; after every event the spec '
         'of three nodes (two with random labels over keys a,b,c, one without labels) is computed with '
         'NodeSLOReconciler.getNodeSLOSpec (with or without the old spec, as Reconcile does). One test function per section '
         '(threshold, qos, cpuburst, system, hostapp): the focused section is absent / empty ({} null ...) / valid / malformed (13 '
         'variants: syntax errors and wrong JSON types) / textually unchanged / a "toggle" of the previous version that differs ONLY in '
         'how nothing is written for list/map-valued keys (key absent vs [] / {} vs null: host applications, blkio blocks, '
         'schedFeatures, the nodeStrategies/nodeConfigs key; at cluster level and in node entries; the other sections are then '
         'usually left textually unchanged), the other four sections are background noise (incl. '
         'malformed) and are not judged in that test. A valid section sets a random subset of the field paths of the strategy struct '
         '(schema derived by reflection: pointers, by-value enums, nested objects, map, list of blocks, quantity, int-or-string; '
         'explicit null, empty string, empty object/list, unknown keys, values outside the webhook ranges) at cluster level and in 0-4 '
         'node entries whose selectors are matchLabels / matchExpressions / both / empty / null / absent / invalid and are mostly built '
         'from the labels of the generated nodes so that they overlap. Oracle on the JSON text only: per leaf path, value of the FIRST '
         'entry whose selector matches if that entry sets the path, else the cluster value, else the built-in default '
         '(sloconfig.Default*Strategy marshalled; empty for qos and hostapp); absent section = defaults; malformed section = what the '
         'same node had after the previous event. non-trivial = some judged event where >=2 entries match the node, the first two set '
         'different paths (hostapp: different lists) and the cluster level sets a path one of them sets. distinct = FNV-64 of node '
         'labels + all texts of the focused section. Sixth test TestVerifC20Reapply (unit reapply): same engine and oracle, '
         'judged section drawn per case, 3-7 events, delete probability 0.2; the modes aim at removing the section key (or deleting '
         'the ConfigMap) and then applying an EARLIER text of that section again byte for byte (also over a different text, also a '
         'malformed one; the other sections are removed / kept / re-applied the same way); the expectation after every event is '
         'computed from the current ConfigMap text only. non-trivial there = a valid earlier text is re-applied after the section '
         'was gone (key removed or ConfigMap deleted) and yields non-default settings for some node. TestVerifC20Delivered (unit '
         'delivered): same engine, judged section drawn per case, 2-6 events incl. node relabel events; the observable is the spec '
         'READ BACK from the NodeSLO object stored after the real NodeSLOReconciler.Reconcile ran (first reconcile creates it, later '
         'ones take the update path against the previously stored, serialized object); non-trivial = on the update path the stored '
         'spec has to lose a leaf it had before. TestVerifC20Annotated (unit annotated): as delivered, system section, each node '
         'carries the node.koordinator.sh/network-bandwidth annotation with probability 1/2 (values no ConfigMap uses) and the order '
         'in which the three nodes are reconciled after an event is drawn; expectation per node = layering of the current ConfigMap, '
         'totalNetworkBandwidth replaced by the node\'s OWN annotation if it has one (documented override); non-trivial = an annotated '
         'node is reconciled before an un-annotated node that resolves to the same strategy. TestVerifC20StartupRace (unit startuprace): two ConfigMap versions (v1 = what the '
         'informer cache holds, possibly none; v2 = any, judged section not malformed); the first IsCfgAvailable reads v1 and, inside '
         'that Get, the harness moves the cache to v2 and invokes the real Create/Update handler - inline when the cache lock is free '
         '(TryLock), else in a goroutine joined after IsCfgAvailable returns; 10 % controls deliver the event afterwards; at quiescence '
         'every node must get the layering of v2; non-trivial = event inside the window and v1/v2 give some node different settings.',
 'assumptions': ['"sets the field" is read on the JSON text: a key that is absent, null, "" for a by-value string field, {} for a map or '
                 '[] for a list of blkio blocks does not set anything; unknown keys are ignored. Host applications: an entry with '
                 '"applications": [] sets the list (no applications), an entry without the key does not (cluster list); null is '
                 'decoded like an absent key, "no applications" is tolerated for it as well',
                 'a list (blkio blocks, host applications) set at a more specific layer may either replace the less specific list or be '
                 'laid over it element by element (what the JSON overlay does): length and every leaf the top layer sets are binding, '
                 'other leaves may be absent or inherited from the same index; an explicit zero totalNetworkBandwidth may be read as '
                 'set or as not set',
                 'the built-in default of the resource-QoS section is the empty strategy (per-class defaults are applied by koordlet); '
                 'the extensions section is not judged (no extension plug-in is registered in this tree)',
                 'nodes carry no network-bandwidth annotation except in unit annotated, where the documented per-node override of '
                 'totalNetworkBandwidth is adopted for the annotated node itself and must not reach any other node; nothing is asserted about the event right after a ConfigMap delete (the statement is silent), '
                 'later events are judged against what was observed then',
                 'unit delivered uses a stand-in API client that stores NodeSLO objects serialized (JSON) and serves the generated nodes; '
                 'nodes are reconciled after every event whether or not the handler enqueued them (a resync does the same). unit '
                 'startuprace owns exactly one interleaving point (inside the ConfigMap Get of the first IsCfgAvailable); other '
                 'interleavings are not explored',
                 'invalid selectors are limited to four shapes LabelSelectorAsSelector rejects (In without values, Exists with values, '
                 'unknown operator, illegal label value)'],
 'units': [{'name': 'nodeslo',
            'pkg': 'pkg/slo-controller/nodeslo',
            'files': ['C20/c20_nodeslo_test.go'],
            'tests': [{'run': 'TestVerifC20Threshold', 'quick': 4000, 'thorough': 10000, 'shards': 6},
                      {'run': 'TestVerifC20ResourceQOS', 'quick': 4000, 'thorough': 10000, 'shards': 6},
                      {'run': 'TestVerifC20CPUBurst', 'quick': 4000, 'thorough': 10000, 'shards': 6},
                      {'run': 'TestVerifC20System', 'quick': 4000, 'thorough': 10000, 'shards': 6},
                      {'run': 'TestVerifC20HostApp', 'quick': 4000, 'thorough': 10000, 'shards': 6},
                      {'run': 'TestVerifC20Reapply', 'quick': 3000, 'thorough': 10000, 'shards': 6},
                      {'run': 'TestVerifC20Delivered', 'quick': 3000, 'thorough': 10000, 'shards': 6},
                      {'run': 'TestVerifC20Annotated', 'quick': 3000, 'thorough': 10000, 'shards': 6},
                      {'run': 'TestVerifC20StartupRace', 'quick': 3000, 'thorough': 10000, 'shards': 6}]}],
 'manifest': {'technique': 'property-based testing (rapid): generated ConfigMap histories with reflection-driven strategy generators and a '
                           'text-level reference model of the default < cluster < first-matching-entry layering',
              'text': 'Generated-input search: histories of ConfigMap events are fed to the real event handler; after each event the '
                      'NodeSLO spec of three nodes is computed by the reconciler and every leaf of the focused section is compared with '
                      'a reference computed from the JSON text alone (independent selector matcher, no MergeCfg): first matching node '
                      'entry, else cluster, else built-in default; absent section = defaults; unparsable section = previously delivered '
                      'settings; a node that no entry selects must see only cluster and default values. Exploration, not proof: '
                      'absence of violations over the sampled cases.',
              'note': 'text-level reading of "sets the field" (null/""/{}/[] set nothing); lists may be replaced or overlaid '
                      'element-wise; extensions and the node bandwidth annotation are out of scope; rapid\'s PRNG and shrinker'}}
