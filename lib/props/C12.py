# C12 registry entry: see lib/registry.py for the field meanings
PROP = {
 'rule': ('rapid-generated (cgroup tree depth 1-3 x fan-out 1-3, resource in {cpuset.cpus, cpu.cfs_quota_us, memory.min, memory.low, memory.high}, '
          'cgroup v1/v2, hierarchy-valid old and new assignments incl. unlimited, fresh or pre-populated ResourceCache); every updater call of '
          'LeveledUpdateBatch is wrapped and the whole tree is snapshotted after it (= every prefix of the write sequence = every crash point). '
          'non-trivial = depth >= 2 and (some node shrinks while another grows, or a cpuset shifts); distinct = FNV-64 of the full case. '
          'leveledRounds: 2-4 successive LeveledUpdateBatch rounds on one executor inside the force-update window (the ResourceCache decides what is skipped), '
          'rounds may return to an earlier assignment; non-trivial = a node shrinks and later grows, or a round reverts. '
          'beCPUSetRewrite: BE cgroup tree (root / 0-3 pods / 0-2 containers) with hierarchy-valid cpusets, 1-3 successive applyCPUSetWithNonePolicy rounds '
          'through an executor wrapper that forwards one write at a time and snapshots the tree after each; non-trivial = tree has pods and a round shifts '
          '(or rounds both shrink and grow).'),
 'assumptions': ['a crash point is the boundary between two whole-file writes (a single write(2) is atomic for these small values)',
                 'the temp-file cgroup root of system.NewFileTestUtil stands in for the kernel: validity is judged by the harness, not by the kernel',
                 'cgroup-v2 cpu.max is modelled as "<quota> <period>" initially and as the bare value after the agent wrote it',
                 'pkg/koordlet/util/perf_group/perf_group_linux.go is replaced (build overlay only) by a cgo-free stand-in; no oracle touches perf counters'],
 'units': [{'name': 'executor',
            'pkg': 'pkg/koordlet/resourceexecutor',
            'files': ['C12/c12_executor_test.go'],
            'tests': [{'run': 'TestVerifC12LeveledUpdate', 'quick': 1500, 'thorough': 6000},
                      {'run': 'TestVerifC12LeveledRounds', 'quick': 1500, 'thorough': 6000}]},
           {'name': 'cpusuppress',
            'pkg': 'pkg/koordlet/qosmanager/plugins/cpusuppress',
            'files': ['C12/c12_cpuset_test.go'],
            'tests': [{'run': 'TestVerifC12BECPUSetRewrite', 'quick': 600, 'thorough': 3000}]},
           # "when the rewrite completes every file holds its target value" for the BE cpuset tree as rewritten by adjustByCPUSet,
           # incl. crash-recovery states (root already at the round's target, descendants narrower): asserted by the C10 harness
           # (cpuset:descendant-not-at-target-after-round), whose two cpuset tests are registered here as a C12 unit as well.
           {'name': 'cpusuppress-rounds',
            'pkg': 'pkg/koordlet/qosmanager/plugins/cpusuppress',
            'files': ['C10/c10_test.go'],
            'tests': [{'run': 'TestVerifC10AdjustCPUSet', 'quick': 1500, 'thorough': 4000},
                      {'run': 'TestVerifC10SuppressHistory', 'quick': 600, 'thorough': 3000}]}],
 'manifest': {'technique': 'property-based testing (rapid): generated cgroup trees and old/new assignments; invariant checked on a snapshot after every single updater call (crash-point enumeration within each generated case)',
              'text': ('Generated-input search with per-step invariant: for every generated tree and pair of hierarchy-valid assignments, each prefix of the write sequence of '
                       'LeveledUpdateBatch (and of the BE cpuset rewrite in cpusuppress) is examined as a crash point and must be hierarchy-valid; the final state must equal '
                       'the target and unchanged files must keep their mtime. Exploration over sampled trees; within a case all crash points are enumerated.'),
              'note': 'temp-file cgroup root instead of a kernel; crash granularity = whole-file writes; perf_group cgo stub in the build overlay'}}
