# C02 registry entry: see lib/registry.py for the field meanings
PROP = {
    'rule': 'flat: rapid-generated sibling sets (1..8 siblings; request/min/guarantee/weight from a boundary-heavy mixture at scales 8, 100, '
            '1e6, 2^40 and 2^61/n; lend flag; total aimed at 0, below/at/just above the sum handed out as minimums, in between, all requests '
            '-1/0/+, negative, sum of minimums and that -1), fed either to quotaTree.insert/update*+redistribution or through '
            'RuntimeQuotaCalculator\'s setters in GroupQuotaManager\'s protocol (two independent dimensions, request limited by max, '
            'interleaved refreshes). exhaustive: every multiset of n<=3 siblings with request 0..4, max(min,guarantee) 0..4, weight 0..3, '
            'lend flag, and every total 0..13 (complete up to renaming). hamilton: computeHamiltonDeltas vs a math/big largest-remainder '
            'reference on 1..10 nodes, weights up to 2^62/n, T up to 2^62. order: same siblings under 4 insertion orders, 5 evaluations over '
            'the Go map and 4 explicit visiting orders of iterationForRedistribution. tree: GroupQuotaManager histories on 1-3-level '
            'webhook-valid trees (UpdateQuota, OnPodAdd/Delete, UpdateClusterTotalResource, min/max/weight updates, lend toggles, '
            're-parenting of leaves and subtrees via a changed parent label, deletes), with and without scaleMinQuota and ElasticQuotaGuaranteeUsage; at every parent the flat oracle, plus an independent statement of '
            'the min-scaling rule (children\'s mins sum above the parent\'s runtime -> floor(T*min_i/sum), else unchanged; float tolerance only beyond '
            '2^53) compared with the AutoScaleMin the manager uses, and its consequences (scaled minimums fit -> children together get at most the parent\'s runtime; every child gets at least min(request, scaled minimum)). '
            'non-trivial (DESIGN.md): at least two borrowers (request > max(min,guarantee)) with positive weight, positive capacity '
            'left after the minimums, and a non-zero remainder in the first largest-remainder split (order unit: additionally a tie on '
            'the remainder; hamilton: residual > 0 with >= 2 weighted nodes). distinct = FNV-64 of the full input.',
    'assumptions': [
        'sums of one parent\'s requests, minimums and weights fit in int64 (values are apiserver Quantities; generator keeps every sum <= 2^62) '
        'and shared weights are >= 0 (webhook validateQuotaSelfItem)',
        'a sibling that lends and asks for no more than its guaranteed minimum gets exactly its request; one that does not lend keeps exactly its '
        'minimum (documented semantics of the lend flag; both inside the bounds of the statement)',
        'proportionality is asserted with tolerance K*(w_i+w_j), K = min(#weighted borrowers, 1+#satisfied weighted borrowers) >= number of '
        'redistribution rounds; each round\'s largest-remainder share is less than one unit away from the exact share',
        'tree unit: per-child inputs (limited request, AutoScaleMin, Guaranteed, SharedWeight) are read from koordinator\'s QuotaInfo after a '
        'full refresh; upward aggregation of requests is C01\'s subject',
        'min scaling: every child carries the manager\'s single scaleMinQuotaEnabled flag (scaleMinQuotaManager.update is only called with it), so the '
        '"scale-disabled children first" branch is unreachable through GroupQuotaManager; on a cluster whose total was never non-zero koordinator keeps an '
        'empty total list and scales nothing at the first level - that start-up state is excluded from the scaling rule (class counter)',
        'built-in default/system quota groups (treeBuiltin unit: manager built by NewGroupQuotaManager with small, 2^60 and production MaxInt64/5 group '
        'maxima, pods without quota label added to / removed from these groups): by the documented treatment they are not part of the division '
        '(their runtime is their max) and the root divides cluster total minus the requests of their assigned pods among its real children; the '
        'first-level oracle uses that total from the harness model and the real root children only',
        'resource names (treeDims unit): spec.max/min may list cpu only, memory only or both, webhook-valid (min names within max names; below the first '
        'level the parent\'s max names and min names within the parent\'s; shared weight lists the max names); a name not listed in min is a minimum of 0; '
        'in a dimension the sibling set is the children whose max lists it; max names only change on first-level leaf quotas and not under ElasticQuotaGuaranteeUsage',
        'Go map iteration order inside quotaTree is not controlled; the order unit additionally calls iterationForRedistribution with explicit slice orders',
    ],
    'units': [{
        'name': 'core',
        'pkg': 'pkg/scheduler/plugins/elasticquota/core',
        'files': ['C02/c02_oracle_test.go', 'C02/c02_flat_test.go', 'C02/c02_tree_test.go'],
        'tests': [
            {'run': 'TestVerifC02Flat', 'quick': 20000, 'thorough': 200000},
            {'run': 'TestVerifC02Exhaustive', 'rapid': False, 'quick': 1, 'thorough': 1, 'quick_shards': 4, 'shards': 4,
             'env': {'VERIF_C02_EXSHARDS': '4'}, 'timeout_quick': 300, 'timeout_thorough': 600},
            {'run': 'TestVerifC02Hamilton', 'quick': 20000, 'thorough': 200000},
            {'run': 'TestVerifC02Order', 'quick': 10000, 'thorough': 100000},
            {'run': 'TestVerifC02Tree', 'quick': 3000, 'thorough': 20000},
            {'run': 'TestVerifC02TreeBuiltin', 'quick': 3000, 'thorough': 20000},
            {'run': 'TestVerifC02TreeDims', 'quick': 3000, 'thorough': 20000},
        ],
    }],
    'manifest': {
        'technique': 'property-based testing (rapid) with an independent math/big oracle, plus an exhaustive small-scope enumeration '
                     '(n<=3 siblings, values 0..4, totals 0..13)',
        'text': 'Generated-input search against a re-statement of the sharing rule: per-sibling bounds, sum never above the parent when the '
                'minimums fit, no unit created or dropped (sum equals the parent exactly while a weighted sibling is unsatisfied), zero-weight '
                'siblings get nothing extra, weighted proportionality within a tolerance derived from the round structure of the algorithm, '
                'largest-remainder split equal to a big-integer reference, and identical results under permuted insertion/visiting orders and '
                'repeated evaluation. Checked on flat sibling sets (direct and through RuntimeQuotaCalculator), exhaustively on a small scope, '
                'and at every level of 1-3-level trees after GroupQuotaManager.RefreshRuntime. Exploration, not proof, outside the enumerated scope.',
        'note': 'sums fit in int64, weights >= 0; lend-flag semantics as documented; tree-level inputs read from QuotaInfo; Go map order inside '
                'koordinator not controlled; rapid\'s PRNG and shrinker',
    },
}
