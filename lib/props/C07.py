# C07 registry entry: see lib/registry.py for the field meanings
PROP = {'rule': 'rapid-generated cases. history: rapid state machine over one nodeDeviceCache (inventory GPU 0-8 / RDMA 0-4 / FPGA 0-4, '
         'unhealthy and zero-resource devices, sparse minors, optional topology; actions allocate through AutopilotAllocator + commit '
         '(Reserve-style or pod informer), duplicate event (4 kinds), pod update with changed allocation, release (4 ways), events for '
         'an already completed pod (completed->completed update unchanged / labels+status / condition, re-list add, add of a pod first '
         'seen terminated then updated; the pod holds nothing from its first terminal event on), release '
         'again, inventory refresh (same/add/recover/grow and, in half of the cases, remove/unhealthy/reduce/gpu-memory change/Device CR '
         'deleted)); non-trivial = a pod received a duplicate event and was later released, or an inventory refresh happened between a '
         "pod's allocation and its release. allocate: one (inventory, constructed usage, request) triple; non-trivial = some device is "
         'partly used / unhealthy / zero AND the request sits at the feasibility boundary (exactly enough or one device short) or needs '
         'several devices. pluginHistory: state machine through the Plugin entry points on a node seeded with resident pods: one scheduling '
         'cycle PreFilter/Filter/[event: another pod bound elsewhere, pod deleted, device lost]/Reserve for ordinary pods and pods with a '
         'designated allocation (annotation + scheduling hint), preemption dry run (clone state, RemovePod over a permutation of victims, '
         'Filter, reprieve AddPod/RemovePod), Reserve -> bound update -> Unreserve (bind failed client-side, persisted) -> 1-3 ordinary '
         'updates, release, refresh; non-trivial = dry run with >=3 victims, or designated pod with an event between Filter and Reserve, '
         'or the unreserve-of-bound-pod sequence. reservationHistory: 1-3 reservations (Default/Aligned/Restricted) each reserving part of '
         'one device (reserve pod delivered through the pod handler), pods scheduled through PreFilter/PreRestoreReservation/'
         'RestoreReservation/Filter/FilterNominateReservation/Reserve as owners of a generated subset of the reservations (first matched '
         'reservation that passes is nominated), requests aimed at reserved, reserved+free(+1); informer pods, pod/reservation deletes, '
         'refresh; non-trivial = an owner holds more on a reserved device than was reserved, or an owner was served in a history of >=6 '
         'events. ratioFill: per GPU a generated composition of 100 % into 1-20 gpu-memory-ratio shares (koordinator.sh/gpu, core+ratio, '
         'ratio alone) on memory sizes where ratio*total/100 is mostly not integral, then shares released and asked again; every share some '
         'device has free must be served; non-trivial = a GPU filled to exactly 100 % with non-integral share bytes and >=3 served. '
         'jointAllocate: GPU+RDMA joint allocation (annotation) on 1-3 PCIe switches with 0-2 GPUs and 0-4 NICs each, used/full/unhealthy '
         'devices; non-trivial = a preferred switch hosts more NICs than there are preferred switches, or usage with at most one fitting '
         'NIC to spare. jointReserve: 1-4 joint pods (whole or shared GPU + rdma, sometimes fpga) through PreFilter/Filter/Reserve with the '
         'Reserve phase recorded in the cycle state as the framework extender does, on nodes with or without the '
         'secondary-device-well-planned label; non-trivial = a pod served on a well-planned node, or >=2 pods served. All informer deletes are delivered either as the object or as a cache.DeletedFinalStateUnknown value. '
         'distinct = FNV-64 fingerprint of the full history / triple.',
 'assumptions': ['GPU devices report gpu-core=100, gpu-memory-ratio=100 and gpu-memory (2^30..2^36 bytes) together, or nothing (zero/unhealthy); '
                 'RDMA/FPGA report their single resource',
                 'requests are PreFilter-valid (ValidateDeviceRequest) and carry no device hints, joint-allocation, selectors, VF requests, '
                 'GPU partition tables or required topology scope (joint allocation of [gpu, rdma] is generated in the jointAllocate unit: '
                 'without a required scope the GPU switches are only preferred for the NICs, so completeness is asserted over all NICs; with '
                 'requiredScope=SamePCIe only validity is asserted; a joint allocation may hand out up to one NIC per switch of the GPUs)',
                 'completeness counts a GPU as able to serve a request on the asked memory view alone when every live holder of its memory '
                 'asked in the same view against the present memory size (the truncating conversions then guarantee the other view fits); '
                 'only on a device held in mixed views (or resized under its holders) the other view must fit too, rounded up',
                 'a GPU memory request is charged in both views (bytes and ratio) at commit although only the requested view is compared by '
                 'the allocator; completeness (refusal => not enough devices) therefore counts a GPU as able to serve a request only if the '
                 'unrequested view fits too (rounded up), validity (success => free >= request) uses the requested view only',
                 'events for one pod carry the allocation that was committed for it (Reserve result == annotation written by PreBind); '
                 'pod names are never reused',
                 'a live pod whose device-allocated annotation was removed by an update (still assigned and running) holds nothing from that '
                 'update on; its later events carry no allocation',
                 'with reservations the cache books reserve pod and owners on top of each other, so the over-commit clause is evaluated on the '
                 'allocations of the live NON-reserve pods (sum <= total while no capacity was removed, and after every commit on the devices it '
                 'touched); the ledger identities still include the reserve pods; completeness is not asserted for reservation cycles',
                 'after Unreserve of a pod whose binding was persisted, the ledger is only required to account the pod again from its next '
                 'informer event on (the Unreserve and the following updates are one atomic step of the generated history)',
                 'a pod with a designated allocation may use only the designated devices, at most the designated amount of each; the '
                 'allocation oracle is evaluated at Reserve (the commit), dry-run Filter verdicts are only required not to refuse a feasible pod',
                 "'used <= total' is asserted everywhere only while the history contains no refresh that takes capacity away (device "
                 'removed / unhealthy / total reduced / GPU memory size changed / Device CR deleted); after such a refresh used may '
                 'legitimately exceed total and free is expected to be clamped at 0; an allocation itself must never push a resource it '
                 'was asked for beyond the total'],
 'units': [{'name': 'deviceshare',
            'pkg': 'pkg/scheduler/plugins/deviceshare',
            'files': ['C07/c07_device_test.go', 'C07/c07_plugin_test.go', 'C07/c07_reservation_test.go', 'C07/c07_complete_test.go'],
            'tests': [{'run': 'TestVerifC07History', 'quick': 2000, 'thorough': 6000, 'steps': 30},
                      {'run': 'TestVerifC07Allocate', 'quick': 8000, 'thorough': 30000},
                      {'run': 'TestVerifC07PluginHistory', 'quick': 2000, 'thorough': 6000, 'steps': 20},
                      {'run': 'TestVerifC07ReservationHistory', 'quick': 2000, 'thorough': 6000, 'steps': 22},
                      {'run': 'TestVerifC07RatioFill', 'quick': 2000, 'thorough': 6000},
                      {'run': 'TestVerifC07JointAllocate', 'quick': 6000, 'thorough': 20000},
                      {'run': 'TestVerifC07JointReserve', 'quick': 3000, 'thorough': 10000}]}],
 'manifest': {'technique': 'property-based testing (rapid): model-based state machine over the device cache with a ledger oracle after every '
                           'step, plus generated (inventory, usage, request) triples with a validity + completeness oracle for single allocations',
              'text': 'Generated-history search: allocate (real AutopilotAllocator/GPUAllocator, both the direct and the nodeDevice.filter path) + '
                      'commit, duplicate informer/Reserve events, allocation-changing pod updates, four kinds of release, repeated release and '
                      'inventory refreshes are interleaved; after every step getNodeDeviceSummary() is compared with a reference model kept by '
                      'the harness (total == last inventory, used == sum of live allocations, free == max(total-used,0), allocate set == live '
                      'pods, used <= total while no capacity was removed). Every allocation is checked for count, distinct devices, free >= '
                      'per-device request (free derived from the model, conversion pod request -> per-device request re-stated in the harness) '
                      'and, on refusal, that fewer than the needed number of devices had that much free. Exploration, not proof.',
              'note': "free is read as max(total-used,0): a refresh that removes capacity under running pods necessarily leaves used>total; "
                      "completeness only for requests without hints/joint-allocation/partition tables/required topology scope; rapid's PRNG "
                      'and shrinker; Go map iteration inside koordinator is not controlled'}}
