# C19 registry entry: see lib/registry.py for the field meanings
PROP = {'rule': 'rapid-generated cases, one unit per package. '
         'codecs: a bound object (pod or reservation) gets resource-spec, resource-status (cpu list with singles/ranges/gaps, 0-4 NUMA '
         'entries with non-contiguous node ids, zero/milli/binary/huge amounts), device-allocated (1-3 types x 0-4 devices, ids, VFs, '
         'templates) and reservation-allocated through the setters in a drawn order, optionally passes through the object JSON '
         'encoding, and is read back; non-trivial = >=2 NUMA entries or >=2 devices. decodeIdempotent: generated annotation texts '
         '(reordered/unknown keys, bare-number quantities, nulls, odd cpu lists, byte corruption); non-trivial = accepted text with '
         'nested structure. distinct = FNV-64 fingerprint of the full case.',
 'assumptions': ['strings carried in annotations (device ids, bus ids, reservation names/uids) are valid UTF-8, as everything that '
                 'came through the API server is',
                 'CPU ids are below 4096 (cpuset.Parse rejects ranges ending above that)'],
 'units': [{'name': 'codecs',
            'pkg': 'apis/extension',
            'files': ['C19/c19_codec_test.go'],
            'tests': [{'run': 'TestVerifC19BindAnnotationsRoundTrip', 'quick': 3000, 'thorough': 15000},
                      {'run': 'TestVerifC19DecodeIdempotent', 'quick': 4000, 'thorough': 20000}]},
           {'name': 'numa',
            'pkg': 'pkg/scheduler/plugins/nodenumaresource',
            'files': ['C19/c19_numa_test.go'],
            'tests': [{'run': 'TestVerifC19NUMAReplay', 'quick': 400, 'thorough': 2500, 'steps': 20}]},
           {'name': 'device',
            'pkg': 'pkg/scheduler/plugins/deviceshare',
            'files': ['C19/c19_device_test.go'],
            'tests': [{'run': 'TestVerifC19DeviceReplay', 'quick': 300, 'thorough': 2000, 'steps': 20}]},
           {'name': 'reservation',
            'pkg': 'pkg/scheduler/plugins/reservation',
            'files': ['C19/c19_reservation_test.go'],
            'tests': [{'run': 'TestVerifC19ReservationReplay', 'quick': 300, 'thorough': 2000, 'steps': 25}]}],
 'manifest': {'technique': 'property-based testing (rapid): round-trip and decode-idempotence of the bind-time annotation codecs; '
                           'differential replay of generated allocation histories into fresh plugin caches',
              'text': 'TODO',
              'note': 'TODO'}}
