# C19 registry entry: see lib/registry.py for the field meanings
PROP = {'rule': 'rapid-generated cases, one unit per package. '
         'codecs (apis/extension): a bound object (pod or reservation) gets resource-spec, resource-status (cpu list with '
         'singles/ranges/gaps up to id 4095, 0-4 NUMA entries with non-contiguous node ids, zero/milli/binary/huge amounts), '
         'device-allocated (1-3 types x 0-4 devices, ids needing JSON escapes, VFs, templates) and reservation-allocated through the '
         'setters in a drawn order, optionally passes through the object JSON encoding, and is read back; non-trivial = >=2 NUMA '
         'entries or >=2 devices. decodeIdempotent: generated annotation texts (reordered/unknown keys, bare-number quantities, '
         'nulls, odd cpu lists, byte corruption); non-trivial = accepted text with nested structure. '
         'numa / device / reservation / quota: rapid state machines. Every schedule step runs the real plugin path (PreFilter, '
         'Filter with the real NUMA topology manager, Reserve, then PreBind / PreBindReservation on a copy, or Unreserve on a drawn '
         'bind failure) for pods and for Reservation objects; other steps are delete (plain or tombstone), finish (a pod that '
         'turns Succeeded/Failed is delivered as a delete and disappears, as the phase-filtered pod informer of the scheduler does; '
         'a Reservation that turns Succeeded/Failed stays and is delivered with its terminal phase), touch (update carrying the '
         'same allocation), optional delivery of the own pre-bind-patch and bind events to the live handlers (two updates); numa: '
         "the node's cpu bind policy (node label, or kubelet policy reported through the NRT) changes at any step and, drawn, "
         'between Reserve and the asynchronous PreBind of the in-flight object; quota: pods labelled with a quota that is created '
         'only later (parked in the default quota, possibly bound there), quota creation, the periodic migration '
         '(migrateDefaultQuotaGroupsPod restated with MigratePod), pod events between quota creation and the migration tick. After EVERY step (each prefix is a crash point) the persisted objects are replayed into a fresh '
         'cache through the real informer handlers in a drawn order with up to 3 duplicate adds / no-op updates; a quarter of the '
         'objects are first delivered as they were between pre-bind patch and bind (Add(annotated, unbound) then the update to the '
         'bound object carrying the same allocation, before any other event of that object); in 1/10 of the '
         'cases, with pod events before the node topology / Reservation events; the fresh ledger must equal the live one and the '
         'harness model of what Reserve handed to the still-active objects. non-trivial = a crash point with >=2 holders (sharing '
         'a device / reservation / quota for device, reservation, quota) and at least one duplicate event. '
         'quota additionally checks every late quota creation as a restart right before it: the rebuilt manager (pods parked in the '
         'default quota, bound ones through the fail-over branch) and the live one both get the quota add and the migration tick '
         'and must agree with each other and the model. '
         'reservation additionally marks Reservations terminating (deletionTimestamp + finalizer, still Available, still owning their '
         'pods), puts the restricted-options annotation (a subset of cpu/memory/gpu) on reservations of any allocate policy (it '
         'counts only for Restricted), re-uses the name of a deleted Reservation for a new one (new uid), and lets pods carry a '
         'stale reservation-allocated annotation naming a deleted Reservation (failed earlier binding cycle whose clean-up patch was '
         'lost, or a copied pod). device additionally drops devices from the Device object and reports them again (at most two '
         'out at a time); every return is checked as a restart during the outage (rebuild from the reduced Device object and the '
         'persisted pods), then the Device update on both schedulers. quotaplugin drives the real ElasticQuota Plugin (OnQuotaAdd/ReplaceQuotas, OnPodAdd/Update/Delete, '
         'Reserve/Unreserve, the real migrateDefaultQuotaGroupsPod) with the MultiQuotaTree gate on: quotas of the default tree and '
         'of 1-2 named trees (root quota with 0-2 children), late quota creation checked as a restart right before it, and, in a '
         'third of the crash points, a drawn subset of the quota objects delivered after the pod events (parking + migration); '
         'model: every pod is held by exactly one quota (its own in its own tree, or the default quota of the default tree) and '
         'bound pods are charged there and to the ancestors. '
         'device runs with the ResizePod gate on and adds the clause that what pre-bind + bind persist for a Reservation '
         '(resize-allocatable annotation -> Status.Allocatable, and the reserve pod rebuilt from it) equals, per resource name, the '
         'sum over the devices handed out at Reserve. schedcache drives the unified reservation event handler '
         '(reservationEventHandlers) of a scheduler serving 1-2 profiles against the exported FakeScheduler cache: Reservations '
         'naming served and unserved scheduler names are created, bound, ended, deleted, touched; the restarted scheduler gets the '
         'persisted objects as adds (duplicates, unscheduled-then-bind); the reserve pods it holds (node, requests) must equal the '
         'live ones and the model (exactly the Available reservations hold their allocatable on their node). '
         'both quota units let bound pods be deleted gracefully (deletionTimestamp, still running, still listed). numa and device '
         "give a third of the Reservations a pod template that carries the allocation result of the pod it was copied from "
         '(resource-status / device-allocated, empty or not); a cycle that allocates nothing of its own for such a Reservation is '
         'not continued (whether the inherited result may be adopted is not stated by C19). deviceConcurrentFirstEvents replays the '
         'Device, a bound pod and an Available Reservation of 48 nodes from three goroutines per node released together and joined, '
         'and compares every node with a sequential replay at quiescence. '
         'numaPersistDecode: arbitrary PodAllocation values through preBindObject and the event handler. '
         'distinct = FNV-64 fingerprint of the full case.',
 'assumptions': ['strings carried in annotations (device ids, bus ids, reservation names/uids) are valid UTF-8, as everything that '
                 'came through the API server is',
                 'CPU ids are below 4096 (cpuset.Parse rejects ranges ending above that)',
                 "the scheduler's pod informer never delivers a pod in phase Succeeded/Failed (field selector of "
                 'scheduler.NewInformerFactory): such pods reach the handlers as deletes and are invisible after a restart; the '
                 "handlers' IsPodTerminated branches are therefore not exercised",
                 'crash points are between scheduling cycles: a pod that is reserved but not yet bound is not in flight when the '
                 'scheduler restarts (its assumption is by design not persisted)',
                 'the fresh scheduler is given the node inventory the live one currently has (topology report, the current Device '
                 'object incl. devices that are temporarily not reported, quota objects); no CPU amplification ratio; one node for '
                 'numa/device',
                 'a stale reservation-allocated annotation never names the uid of a Reservation that still exists (then both '
                 'schedulers would legitimately adopt the pod once they see it bound)',
                 'per-CPU exclusive marks are compared only with the default sharing limit 1 (with 2 the live mark is '
                 'last-writer-wins); the lazily refreshed matchableOnNode/allocatedOnNode indexes of the reservation cache and the '
                 'unread Node field of NodeAllocation.allocatedResources entries are not compared',
                 'reservations are nominated by the harness among those the live cache reports matchable (the nominator is C05); '
                 'quota min/max are static and quotas are never deleted during a quota history (C01 owns quota accounting); at a '
                 'restart the quotas that exist are known before any pod event (quota informer + ReplaceQuotas hook run before the '
                 'main informers, cmd/koord-scheduler/app/server.go steps 1-3), a pod precedes its quota only when the quota is '
                 'created later; the migration tick is assumed to have run before a crash point is compared',
                 "quotaplugin: the live plugin's own bind event is delivered before its migration ticks or it is compared (while it "
                 'is outstanding the cross-tree migration transiently shows a reserved pod as not charged; the bind event repairs it)',
                 'Go map iteration inside koordinator (hint merging, device scoring ties) is not controlled; it can change which '
                 'allocation a cycle picks, not the verdict'],
 'units': [{'name': 'codecs',
            'pkg': 'apis/extension',
            'files': ['C19/c19_codec_test.go'],
            'tests': [{'run': 'TestVerifC19BindAnnotationsRoundTrip', 'quick': 3000, 'thorough': 15000},
                      {'run': 'TestVerifC19DecodeIdempotent', 'quick': 4000, 'thorough': 20000}]},
           {'name': 'numa',
            'pkg': 'pkg/scheduler/plugins/nodenumaresource',
            'files': ['C19/c19_numa_test.go'],
            'tests': [{'run': 'TestVerifC19NUMAReplay', 'quick': 1200, 'thorough': 2500, 'steps': 20},
                      {'run': 'TestVerifC19NUMAPersistDecode', 'quick': 3000, 'thorough': 15000}]},
           {'name': 'device',
            'pkg': 'pkg/scheduler/plugins/deviceshare',
            'files': ['C19/c19_device_test.go', 'C19/c19_devicevf_test.go'],
            'tests': [{'run': 'TestVerifC19DeviceReplay', 'quick': 800, 'thorough': 2000, 'steps': 20, 'shrinktime': '20s'},
                      {'run': 'TestVerifC19DeviceConcurrentFirstEvents', 'quick': 150, 'thorough': 600, 'shrinktime': '5s'},
                      {'run': 'TestVerifC19DeviceVFReplay', 'quick': 3000, 'thorough': 20000, 'shrinktime': '10s'}]},
           {'name': 'reservation',
            'pkg': 'pkg/scheduler/plugins/reservation',
            'files': ['C19/c19_reservation_test.go'],
            'tests': [{'run': 'TestVerifC19ReservationReplay', 'quick': 800, 'thorough': 2000, 'steps': 25, 'shrinktime': '20s'}]},
           {'name': 'quota',
            'pkg': 'pkg/scheduler/plugins/elasticquota/core',
            'files': ['C19/c19_quota_test.go'],
            'tests': [{'run': 'TestVerifC19QuotaReplay', 'quick': 800, 'thorough': 2000, 'steps': 25, 'shrinktime': '20s'}]},
           {'name': 'quotaplugin',
            'pkg': 'pkg/scheduler/plugins/elasticquota',
            'files': ['C19/c19_quotaplugin_test.go'],
            'tests': [{'run': 'TestVerifC19QuotaPluginReplay', 'quick': 600, 'thorough': 2000, 'steps': 25, 'shrinktime': '20s'}]},
           {'name': 'schedcache',
            'pkg': 'pkg/scheduler/frameworkext/eventhandlers',
            'files': ['C19/c19_schedcache_test.go'],
            'tests': [{'run': 'TestVerifC19SchedulerCacheReplay', 'quick': 1000, 'thorough': 4000, 'steps': 25}]}],
 'manifest': {'technique': 'property-based testing (rapid): round-trip and decode-idempotence of the bind-time annotation codecs; '
                           'model-based state machines whose every prefix is replayed into a fresh cache (differential live vs fresh '
                           'plus an explicit reference model)',
              'text': 'Generated-input search in five packages. Codecs: whatever the setters write on a pod/reservation at bind time '
                      '(cpu set string, per-NUMA amounts, device allocations with VFs/templates/ids, reservation assignment) is read '
                      'back semantically equal, also after the object JSON encoding, and decode(encode(decode(s))) = decode(s) on '
                      'generated annotation texts. Replay (nodenumaresource, deviceshare, reservation, elasticquota/core): allocation '
                      'histories are driven through the real plugin path (PreFilter/Filter/Reserve/PreBind, Unreserve, informer '
                      'handlers for delete/finish/update); after every step the objects the API server would hold are fed, in a drawn '
                      'delivery order with duplicate adds and no-op updates, through the real informer handlers into a fresh cache, '
                      'whose ledger (pods, per-CPU refcount/exclusive mark, per-NUMA amounts, GetAvailableCPUs; device used/free per '
                      'minor, holders, taken VFs; reservation assigned pods/allocated/available; quota used/request) must equal the '
                      'live one and the harness model of what was handed out. Exploration, not proof: absence of violations over the '
                      'sampled histories.',
              'note': 'crash points between scheduling cycles only; same node inventory for live and fresh; sharing limit 1 for the '
                      "per-CPU exclusive mark; lazily refreshed reservation node indexes not compared; rapid's PRNG and shrinker; Go "
                      'map iteration inside koordinator is not controlled'}}
