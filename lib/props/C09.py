# C09 registry entry: see lib/registry.py for the field meanings
PROP = {'rule': 'rapid-generated cases: node capacity (1-256 cpu, 1 GiB-4 TiB), kubelet and annotation reservations, colocation strategy '
         '(cpu policy nil/usage/maxUsageRequest/request(unsupported), memory policy nil/usage/request/maxUsageRequest, reclaim '
         'thresholds 0-200, percentage caps nil/0-200, degrade minutes), 0-8 pods (0-14 thorough) over the legal priority x QoS '
         'combinations (label or spec.priority, boundary values), phases, 1-3 containers, with/without metric, usage below/equal/above '
         'request, NUMA annotation (valid ids, mixed with ids that do not exist on the node, or only such ids); dangling pod metrics '
         'and host applications of every priority; no NRT / NRT with 0-4 zones; in half of the cases the strategy is resolved the '
         'way the controller does (sloconfig.GetNodeColocationStrategy on the cluster config and the node) with per-node ratio '
         'labels cpu/memory-reclaim-ratio resp. mid-static-*-reserved-ratio: absent, 0, (0,1), 1, >1, negative, junk. '
         'batchBound: non-trivial = an active high-priority pod without metric AND one with usage > request AND a node amount strictly '
         'between 0 and the percentage cap. batchMonotone: one consumption input raised (or a metric with usage==request deleted); '
         'non-trivial = the raise strictly lowered a published amount (or, for the deleted metric, the base amount was positive). '
         'batchStale: non-trivial = metrics degraded (no update time / older than the window) . mid: non-trivial = non-static mode with '
         'a positive amount below the threshold cap, or a raise that strictly lowered an amount. reconcileHistory: the real '
         'NodeResourceReconciler.Reconcile against a fake client over a generated history (NodeMetric absent from the start / never '
         'reported / fresh / stale / deleted through the delete handler / re-created, pods added and removed, node heartbeats, '
         'controller clock steps, node optionally starting with old amounts), reconciled after every step; non-trivial = a reconcile '
         'with unusable metrics found amounts on the node and had to withdraw them. batchStrategyLayers: the batch case plus '
         'strategy layers on the same node — 0-3 node-pool configs (selectors on pool/tier labels or empty, matching or not, several '
         'matching), the colocation-strategy annotation (partial / junk / absent) and the ratio labels — resolved with '
         'GetNodeColocationStrategy; non-trivial = a node-pool config matches AND an annotation or valid ratio label is present AND a '
         'node amount is positive. configGate: 1-3 generated colocation-config versions (cluster fields and node-pool entries, '
         'percent fields in range or out of range: negative / >100, degradeTimeMinutes<1, resourceDiffThreshold<=0, enable omitted) '
         'delivered as ConfigMap create/update events to the real config handler, node reconciled with the real reconciler after each; '
         'non-trivial = an offer with an out-of-range value was made and the node advertised amounts afterwards. '
         'distinct = FNV-64 of the full case.',
 'assumptions': ['a reported NodeMetric status always carries status.nodeMetric together with status.updateTime (what koordlet writes); '
                 'the never-reported case (empty status) is generated separately in batchStale',
                 'pods carry only legal priority/QoS combinations; container limits are never set without a request (API-server '
                 'defaulting); pod keys and pod-metric keys are unique; NUMA annotations hold unique ids and NRT zones '
                 'are listed in NUMA-id order; ids outside [0, zones) are ignored for the divisor and a pod without any valid id is '
                 'spread evenly over all zones (documented in GetPodNUMARequestAndUsage)',
                 'per-node ratio labels: a parsable float >= 0 overrides the configured percentage with ratio*100 (exact rational in '
                 'the oracle; the code truncates to an integer percent, which only lowers the published amount); unparsable or '
                 'negative values are ignored (apis/extension/node_colocation.go: the illegal value will be ignored); NaN/Inf and '
                 'node-annotation strategies are not generated',
                 'memory policy "request" is checked against its documented formula (capacity - margin - node reservation - '
                 'sum of high-priority requests): by design it does not look at system usage or dangling usage',
                 'qos=LSE pods are charged their cpu REQUEST under the usage policy (documented: LSE does not reclaim cpu); the '
                 'cpu policy value "request" is unsupported and documented to fall back to "usage"',
                 'dangling pod metrics are charged when their reported priority is koord-prod, koord-mid or EMPTY (documented definition in '
                 'plugin.go: high priority = not Batch or Free; counted according to the metric priority), on the node and per zone, with '
                 'a separate signature for the empty-priority stage; host applications are required to be charged only for koord-prod / '
                 'koord-mid, and metrics of terminated pods that are still in the pod list are not required to be charged',
                 'zone bounds use the code\'s documented approximation: system usage, reservation and unbound pods are split evenly '
                 'over the zones, NUMA-bound pods evenly over their zones',
                 'tolerance 2 units (milli-cpu / byte) for the two float multiplications (safety margin, percentage cap)',
                 'strategy layers (documented precedence): cluster strategy < first node-pool config whose selector matches < node '
                 'annotation colocation-strategy (unparsable: ignored) < ratio labels; an override replaces only the fields it sets; '
                 'the annotation never carries enable=false and the mid labels are not combined with node-pool configs',
                 'configGate does not predict which configuration the validator accepts: it reads the configuration in force back '
                 'from the cache (cluster strategy, first node-pool entry selecting the node) and judges the amounts on the Node against '
                 'it: never negative, <= capacity*cap, <= capacity - margin - system usage - prod requests (pods without metrics), mid '
                 '<= capacity*mid threshold; the controller clock is stepped past the sync interval before every reconcile',
                 'reconcileHistory: a reconcile may follow any step (node events and resyncs trigger it); only the withdrawal clause is '
                 'asserted on the Node object (published amounts may lag a fresh calculation by design: resourceDiffThreshold / '
                 'updateTimeThresholdSeconds); the plugins read the wall clock there, so update times are relative to time.Now(): fresh '
                 '<= 2 min old with a degrade window >= 30 min, stale >= 1 h beyond the window'],
 'units': [{'name': 'batch',
            'pkg': 'pkg/slo-controller/noderesource/plugins/batchresource',
            'files': ['C09/c09_batch_test.go', 'C09/c09_strategy_test.go'],
            'tests': [{'run': 'TestVerifC09BatchBound', 'quick': 5000, 'thorough': 12000},
                      {'run': 'TestVerifC09BatchMonotone', 'quick': 4000, 'thorough': 10000},
                      {'run': 'TestVerifC09BatchStale', 'quick': 1500, 'thorough': 2000},
                      {'run': 'TestVerifC09BatchStrategyLayers', 'quick': 3000, 'thorough': 8000}]},
           {'name': 'mid',
            'pkg': 'pkg/slo-controller/noderesource/plugins/midresource',
            'files': ['C09/c09_mid_test.go'],
            'tests': [{'run': 'TestVerifC09MidBound', 'quick': 4000, 'thorough': 10000},
                      {'run': 'TestVerifC09MidMonotone', 'quick': 3000, 'thorough': 6000}]},
           {'name': 'reconcile',
            'pkg': 'pkg/slo-controller/noderesource',
            'files': ['C09/c09_reconcile_test.go', 'C09/c09_config_test.go'],
            'tests': [{'run': 'TestVerifC09ReconcileHistory', 'quick': 500, 'thorough': 3000},
                      {'run': 'TestVerifC09ConfigGate', 'quick': 500, 'thorough': 3000}]}],
 'manifest': {'technique': 'property-based testing (rapid): generated node/strategy/pod/metric/topology inputs with an exact-rational '
                           'bound oracle and metamorphic monotonicity relations',
              'text': 'Generated-input search over Plugin.Calculate of the batch and mid resource plugins (node path and NUMA-zone path '
                      'through a fake client holding a NodeResourceTopology, faked clock). Every published amount is checked to be '
                      'non-negative, within the percentage cap and not above capacity - margin - max(system usage, reservation) - '
                      'high-priority consumption per policy, recomputed independently with math/big rationals (metric-less pods at '
                      'request); raising one consumption input must not raise any amount; deleting a metric whose usage equals the '
                      'request must not raise any amount; degraded metrics must yield Reset items and remove the old amounts from '
                      'the node. Exploration, not proof: absence of violations over the sampled cases.',
              'note': 'upper bound only (no equality with a formula); tolerance 2 units for float truncation; legal priority/QoS '
                      "combinations only; rapid's PRNG and shrinker"}}
