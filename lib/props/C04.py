# C04 registry entry: see lib/registry.py for the field meanings
PROP = {'rule': 'history / historyLong: rapid state machine that plays the scheduler framework and the informers around a real '
         'GangCache/PodGroupManager: 1-2 gang groups of 1-3 gangs (min 1-3, strict/non-strict, only-waiting / waiting-and-running / '
         'once-satisfied, declared by annotation, light-weight labels or PodGroup object), <=9 (long: <=14) pods. Every step runs one '
         'ENABLED rule: pod create/touch/delete at the API, in-order informer delivery with arbitrary lag, re-list (skipped versions), '
         'resync and tombstones, PodGroup add/update/delete, Permit (+AllowGangGroup on Success), reserve failure, AfterPostFilter, '
         "permit timeout, Unreserve of rejected pods, bind ok / bind failure, PostBind, an error after the bind was persisted (Unreserve instead of PostBind, before or after the "
         "informer delivered the node), the framework's own reaction to a deleted pod. "
         "non-trivial = in a group of >=2 gangs a Permit happens after a member's informer delete or roll-back "
         '(Unreserve/AfterPostFilter) that itself followed an earlier Permit of that group. pluginRelease: same idea through '
         'Coscheduling.Permit/Unreserve/AfterPostFilter/PostBind with captured informer handlers (one group of 1-3 gangs, <=8 pods, '
         'no lag except bind update vs PostBind and plain updates); same non-trivial rule. concurrent (-race): a pre-drawn informer '
         'script (updates, resyncs, deletes) races a pre-drawn scheduling script (Permit/Unreserve/PostBind); non-trivial = both '
         'goroutines executed >=3 operations. rounds: the history machine with every scheduling cycle driven as koord-scheduler '
         'drives a gang group (NextPod or queue pop -> BeforePreFilter opening the round context -> Permit | AfterPostFilter | '
         "Unreserve; NextPod's map-order choice is drawn by the harness and recorded in the round context, the real NextPod is "
         'called when it has 0 or 1 candidates), <=12 pods, gangs mostly complete; same non-trivial rule; classes round:* show '
         'first / later failing members of a round and strict-member-fails-after-nonstrict-trigger. rounds and historyVariants '
         '(= the history machine) also draw the other spellings (match policy through the compatibility key '
         'pod-group.scheduling.sigs.k8s.io/match-policy alone or next to the primary key, light-weight name label with '
         'annotation min-available) and late bundling (PodGroup gangs of a multi-gang group start stand-alone and get the groups '
         'annotation by a later PodGroup update; the model uses the group a gang currently declares) and re-submitted jobs (rule groupResubmit: all PodGroups of a '
         'multi-gang group deleted, pods deleted at the API, same PodGroups created again); classes variant:*. '
         'distinct = FNV-64 of the '
         'configuration and the full history.',
 'assumptions': ['Permit / Reserve failure / AfterPostFilter are only issued for pods whose informer add has reached the gang cache '
                 '(the scheduler queue is fed by the same informer) and that are unbound and not in another cycle',
                 'all gangs of a group list the same group; all pods of an annotation gang carry the same gang annotations; pod names are '
                 'never reused; min-available >= 1; a pod never changes its gang',
                 'PodGroup events are delivered synchronously (no lag between the PodGroup API object and the cache)',
                 'for the match policies only-waiting and waiting-and-running the count rule is asserted at every Permit, also after the '
                 "group's first bind (distinct signature ...:after-first-bind); only gangs with policy once-satisfied are exempt once a "
                 'member of the group has been bound. The model forgets that flag when the last gang record of the group vanishes '
                 '(a group created again under the same names is a new group), except when that last record was an undefined one '
                 '(pods of a PodGroup gang seen without their PodGroup) or the group was bundled late: there the unchanged cache keeps '
                 'the record and the model stays sticky (weaker, never stronger)',
                 'a deleted pod that the cache still counts (Permit/PostBind that raced with its informer delete) is counted by the model '
                 'too (tolerated, reported as a class), so the oracle is not stronger than what a race-free cache could know',
                 'terminated (Succeeded/Failed) pods never reach the handlers: the scheduler pod informer filters them',
                 'Unreserve of a member the cache already knows as bound (error after the bind was persisted): the pod stays bound in '
                 'the model; whether waiting members must then be rejected in strict mode is not decided by the statement, so it is '
                 'not asserted (the code rejects them)',
                 'concurrent unit: PodGroup updates are not part of the racing informer script (opt-in VERIF_C04_PGRACE=1 shows the '
                 'unsynchronised read of gang.WaitTime in Permit; it cannot change a release decision)'],
 'units': [{'name': 'core',
            'pkg': 'pkg/scheduler/plugins/coscheduling/core',
            'files': ['C04/c04_gang_test.go', 'C04/c04_rounds_test.go'],
            'tests': [{'run': 'TestVerifC04History', 'quick': 8000, 'thorough': 50000, 'steps': 40, 'quick_shards': 2,
                       'shrinktime': '15s'},
                      {'run': 'TestVerifC04Rounds', 'quick': 6000, 'thorough': 15000, 'steps': 50, 'shrinktime': '15s'},
                      {'run': 'TestVerifC04HistoryVariants', 'quick': 6000, 'thorough': 15000, 'steps': 40, 'shrinktime': '15s'},
                      {'run': 'TestVerifC04HistoryLong', 'thorough': 10000, 'steps': 120, 'thorough_only': True, 'shrinktime': '20s'},
                      {'run': 'TestVerifC04Concurrent', 'thorough': 3000, 'race': True, 'thorough_only': True, 'shards': 4,
                       'shrinktime': '20s'}]},
           {'name': 'plugin',
            'pkg': 'pkg/scheduler/plugins/coscheduling',
            'files': ['C04/c04_plugin_test.go'],
            'tests': [{'run': 'TestVerifC04PluginRelease', 'quick': 3000, 'thorough': 20000, 'steps': 40, 'shards': 6,
                       'shrinktime': '15s'}]}],
 'manifest': {'technique': 'property-based testing (rapid): model-based state machine over informer events and scheduling-cycle callbacks '
                           'with a fake framework handle that owns the waiting-pod map; plugin-level variant; two-goroutine variant '
                           'under the race detector',
              'text': 'Generated histories of pod / PodGroup informer events (in order per object, arbitrarily late, with re-lists and '
                      'resyncs), Permit, Unreserve, AfterPostFilter, PostBind, timeouts and bind failures are run against the real gang '
                      'cache. A reference model derives pending / waiting / bound for every pod from the events alone; at the instant '
                      'Permit returns Success every gang of the group must hold its minimum under its match policy in the model, a '
                      'waiting pod may only be allowed by such a Permit, a strict-mode roll-back must reject every still-waiting member '
                      'of the whole group, and after every step each member must be in exactly one of the three sets and in the set the '
                      'model says. Exploration, not proof.',
              'note': 'sampled histories (~40 / ~120 rules, <= 14 pods); PodGroup events not lagged; interleavings of the informer and '
                      "scheduling goroutines are sampled by the Go scheduler under -race, not enumerated; rapid's PRNG and shrinker"}}
