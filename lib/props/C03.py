# C03 registry entry: see lib/registry.py for the field meanings
PROP = {'rule': 'rapid state machine, one unit per combination of EnableRuntimeQuota x EnableCheckParentQuota (the real Plugin built by New() through '
         'the framework-extender proxy; a fresh GroupQuotaManager per case via ReplaceQuotas, informers never started: every informer event is '
         'delivered by the harness). Case = webhook-valid quota tree (1-3 top-level quotas, depth <= 3, every quota of a top-level subtree '
         'declares the same dimensions out of {cpu, memory, example.com/gpu}, min <= max, children\'s min sum <= parent\'s min; lent / non-lent, '
         'default or custom shared weight; loaded by ReplaceQuotas or by add events), generated DefaultQuotaGroupMax / SystemQuotaGroupMax '
         '(shipped "unbounded" value or small), EnableMinQuotaScale, 0-3 nodes; then ~70 steps of: pod add (quota by label, by namespace, by '
         'namespace annotation, dangling label -> default quota, default/system quota; preemptible or not; 1-2 containers, declared and '
         'undeclared dimensions), schedule (PreFilter, on Success Reserve, optionally an informer event between the two), finish binding (bind = '
         'pod update with nodeName, or Unreserve), pod delete (optionally followed by the late Unreserve), pods labelled with a quota that does not exist yet (parked in the default quota, admitted / reserved / bound there), late quota create for such names (leaf below the root or below an existing parent, webhook-valid), migrate (the plugin\'s real periodic cycle migrateDefaultQuotaGroupsPod; afterwards the pod counts against its own quota in the model; parked pods are also scheduled, rolled back, bound and deleted inside the window between quota creation and migration), quota label changes where the webhook allows them (toggle allow-lent-resource on any quota; toggle is-parent: a parent without children -> leaf, a leaf named by no pod -> parent; both make the manager rebuild the whole tree; re-parent a quota with its subtree below the root or below another is-parent quota with the same dimensions, outside its own subtree, whose min has room for it: the ancestor chains of the model follow), quota update (raise max / set min inside '
         'the webhook window / lower max), capacity change (node add / delete / resize / squeeze). The +parked-late-bind-error unit adds the late bind error for pods bound while parked in the default quota (the update that moves such a running pod into its meanwhile created quota has to charge it there). The unreserve||delete unit is one harness-owned interleaving: a quota hook plugin starts the delete event of a pod inside its roll-back, with a bounded wait, joined afterwards; at quiescence the next admission must see exactly the remaining pods. The three +parent-pods units run the base machine with pods that may name a parent quota directly (alpha gate SupportParentQuotaSubmitPod, webhook side only), half of the pods non-preemptible and generous mins. The four +pod-updates units run the same machine plus: ordinary pod update events that keep labels, request and node (status / resourceVersion only) for pods in any state, and the late bind error (the binding is already visible, then the bind call of the scheduler reports an error: Unreserve, optionally ForgetPod -> handlePodDelete, while the pod keeps running). non-trivial = some attempt was rejected on a '
         'quota, afterwards an assigned pod on that quota\'s path was released (delete or unreserve), and afterwards an attempt on the same quota '
         'was admitted. distinct = FNV-64 of setup + full history.',
 'assumptions': ['quota objects are webhook-valid and min lists the same dimensions as max (a dimension missing from min is not checked by the '
                 'plugin at all; the built-in default/system quotas have no min, so no non-preemptible bound is asserted for them)',
                 'the plugin has seen the pod (informer add) before the pod is scheduled; pods that arrive already bound (fail-over, foreign '
                 'scheduler) are not generated: they bypass admission by design',
                 'pods have regular containers only (no init containers / overhead / pod-level resources), so the request is the plain sum over '
                 'containers; all quantities are integral in milli-cpu / whole units',
                 'between the creation of its quota and the next migration cycle (1 s period) a parked pod is resolved by the plugin to the new quota '
                 'while the manager still holds it in the default quota; the whole window is generated: a parked pod scheduled inside it is admitted '
                 'against its own quota and, from Reserve on, charged to it; a pod reserved in the default quota earlier and rolled back inside the '
                 'window is released from the default quota and stays parked; a bind update inside the window moves the pod, bound, to the new quota '
                 '(routing of koordinator commits 2cce5a0 and 8efd15b); a violation on a quota path that saw such a Reserve/Unreserve carries the '
                 'signature migration-window:reserve-or-unreserve-of-parked-pod-not-applied-to-holding-quota',
                 'a quota (and its ancestors) that received an assigned pod by migration is outside the used <= max claim from then on: running pods '
                 'arrive without admission',
                 'ancestors that take over a re-parented subtree holding assigned pods are outside the used <= max claim from then on (that usage '
                 'never passed their admission check); the per-attempt oracle keeps applying to them',
                 'quotas are not deleted and pods do not change their label (C01 covers those); scheduling cycles are sequential '
                 '(PreFilter..Reserve of one pod at a time, as in the scheduler), binding outcomes and informer events interleave freely',
                 'the limit of a quota is what the plugin publishes: GetQuotaSummaries().Runtime after an explicit RefreshRuntime when runtime '
                 'quota is on (how that figure is computed is C02), the max last written by the harness otherwise; a verdict consistent with the '
                 'figures read immediately before OR immediately after the PreFilter call is accepted',
                 'for ancestors the admitted-direction is asserted only in the dimensions the pod requests with a non-zero amount (the plugin '
                 'masks the ancestor comparison to the pod\'s request keys); any declared dimension may justify a rejection',
                 'used <= max is asserted for quotas whose max was never lowered: for the quotas pods are admitted against (leaves, default, '
                 'system) always, for ancestors only when parent checking is on (nothing bounds them otherwise)',
                 'a bound pod whose reservation was rolled back after the binding was visible (late bind error) is charged nowhere until its next pod event: '
                 'in the model it holds no assignment from the roll-back to that event (the scheduler-side truth; koordinator repairs the state with '
                 'the next pod update, which the +pod-updates units deliver), is never scheduled again, and when the update charges it again its quota '
                 'path leaves the used <= max claim (no admission was passed); in the +pod-updates units status updates are not delivered to pods still parked in the default '
                 'quota, the two +parked-pod-updates units lift that: an update inside the migration window moves the pod to its own quota and the '
                 'model moves whatever the pod holds (reservation or binding) with it; quota delete / re-create around running pods is not generated (the webhook refuses deleting a quota that labelled pods name)',
                 'the usage of a quota - non-preemptible usage included - is what the assigned pods of its whole subtree request; for leaf quotas (all '
                 'units except +parent-pods) that is the quota\'s own pods; a non-preemptible pod submitted to a parent quota must fit into the '
                 'parent\'s min together with the non-preemptible pods its children hold',
                 'Go map iteration inside koordinator (runtime redistribution) is not controlled by the seed'],
 'units': [{'name': 'plugin',
            'pkg': 'pkg/scheduler/plugins/elasticquota',
            'files': ['C03/c03_admission_test.go', 'C03/c03_race_test.go'],
            'tests': [{'run': 'TestVerifC03RuntimeOnParentOff', 'quick': 2000, 'thorough': 2000, 'steps': 70},
                      {'run': 'TestVerifC03RuntimeOnParentOn', 'quick': 2000, 'thorough': 2000, 'steps': 70},
                      {'run': 'TestVerifC03RuntimeOffParentOff', 'quick': 2000, 'thorough': 2000, 'steps': 70},
                      {'run': 'TestVerifC03RuntimeOffParentOn', 'quick': 2000, 'thorough': 2000, 'steps': 70},
                      {'run': 'TestVerifC03PodUpdatesRuntimeOnParentOn', 'quick': 1000, 'thorough': 1000, 'steps': 70},
                      {'run': 'TestVerifC03PodUpdatesRuntimeOffParentOff', 'quick': 1000, 'thorough': 1000, 'steps': 70},
                      {'run': 'TestVerifC03PodUpdatesRuntimeOnParentOff', 'quick': 1000, 'thorough': 1000, 'steps': 70},
                      {'run': 'TestVerifC03PodUpdatesRuntimeOffParentOn', 'quick': 1000, 'thorough': 1000, 'steps': 70},
                      {'run': 'TestVerifC03ParkedPodUpdatesRuntimeOnParentOn', 'quick': 1500, 'thorough': 1000, 'steps': 70},
                      {'run': 'TestVerifC03ParkedPodUpdatesRuntimeOffParentOff', 'quick': 1500, 'thorough': 1000, 'steps': 70},
                      {'run': 'TestVerifC03ParentPodsRuntimeOffParentOn', 'quick': 1500, 'thorough': 1000, 'steps': 70},
                      {'run': 'TestVerifC03ParentPodsRuntimeOnParentOff', 'quick': 1000, 'thorough': 1000, 'steps': 70},
                      {'run': 'TestVerifC03ParentPodsRuntimeOffParentOff', 'quick': 1500, 'thorough': 1000, 'steps': 70},
                      {'run': 'TestVerifC03ParkedLateBindErrorRuntimeOffParentOff', 'quick': 1500, 'thorough': 1000, 'steps': 70},
                      {'run': 'TestVerifC03UnreserveDeleteInterleaved', 'quick': 300, 'thorough': 300}]}],
 'manifest': {'technique': 'property-based testing (rapid): model-based state machine over the closed loop pod add -> PreFilter -> Reserve -> '
                           'bind/Unreserve -> delete with quota and capacity changes, per-attempt decision oracle + history invariant',
              'text': 'Generated-history search over the real ElasticQuota plugin for each of the four runtime-quota x check-parent settings. A '
                      'reference model tracks which pods hold an assignment; for every PreFilter verdict the inequalities of the statement are '
                      're-evaluated from the model\'s usage (not the plugin\'s counters) and the published limit: an admitted pod must satisfy '
                      'used+request <= limit in every declared dimension of its quota, in every ancestor when parent checking is on, and '
                      'non-preemptible used+request <= min; a rejected pod must violate at least one of them (so leaked or lost usage after '
                      'Unreserve / delete shows up as an unjustified verdict). After every step no quota whose max was never lowered shows used '
                      'above max. Exploration, not proof: absence of violations over the sampled histories.',
              'note': 'webhook-valid trees with one dimension set per top-level subtree; sequential scheduling cycles; no quota delete / '
                      're-parent; runtime figures are taken from the plugin (C02 checks them); rapid\'s PRNG and shrinker; Go map iteration '
                      'inside koordinator is not controlled'}}
