# C03 registry entry: see lib/registry.py for the field meanings
PROP = {'rule': 'placeholder',
 'assumptions': [],
 'units': [{'name': 'plugin',
            'pkg': 'pkg/scheduler/plugins/elasticquota',
            'files': ['C03/c03_admission_test.go'],
            'tests': [{'run': 'TestVerifC03Probe', 'quick': 1, 'thorough': 1, 'rapid': False},
                      {'run': 'TestVerifC03RuntimeOnParentOff', 'quick': 1000, 'thorough': 2000, 'steps': 50},
                      {'run': 'TestVerifC03RuntimeOnParentOn', 'quick': 1000, 'thorough': 2000, 'steps': 50},
                      {'run': 'TestVerifC03RuntimeOffParentOff', 'quick': 1000, 'thorough': 2000, 'steps': 50},
                      {'run': 'TestVerifC03RuntimeOffParentOn', 'quick': 1000, 'thorough': 2000, 'steps': 50}]}],
 'manifest': {'technique': 'property-based testing (rapid)', 'text': 'placeholder', 'note': 'placeholder'}}
