# C08 registry entry: see lib/registry.py for the field meanings
PROP = {'rule': 'rapid-generated cases. drift: state machine (<=40 steps) over podAssignCache with a fake clock: OnAdd / repeated OnAdd / '
         'Reserve / Unreserve|Forget / bound OnUpdate (also bound elsewhere) / OnUpdate(resources | limits only (drop, =request, request+1, well above) | spec.priority flip | conditions | '
         'terminated | nodeName change | metadata only) / OnDelete (also tombstone) / NodeMetric add|update (update time aimed at '
         'assignTime+reportInterval and at estimation deadlines, +-1s/+-1ns; per-pod usage aimed at the estimate: =,+-1,/2,*2,0, missing, '
         'empty, wrong prod flag, dangling and nil entries; pods that opt out of estimation with all-zero custom scaling factors (cached '
         'without estimation vector) get arbitrary non-zero reported usage; aggregated usages; empty status) / NodeMetric delete / clock tick / read-only '
         'probe (real PreFilter+Filter and/or Score of a drawn incoming pod, 1-4 times in a row, with drawn thresholds / aggregated '
         'filter+score profiles incl. types/periods the metric does not report, optional custom-aggregation node annotation), on 3 nodes; '
         'after every step all 22 query modes (prod, whole node, 4 aggregation types x 5 periods) of every node are compared with a fresh '
         'cache fed the final metric+pods and with a from-scratch model, and every vector returned to the harness is overwritten (+1) '
         'afterwards as an aliasing detector; non-trivial = a pod whose CURRENT report shows a usage different '
         'from its estimate is removed (delete / rollback / terminated / moved) while the node has a metric. decision: (args after '
         'defaulting, node with custom-threshold and raw-allocatable annotations, metric fresh|expired|missing|empty, 0-4 assigned pods, '
         'incoming pod); allocatable aimed so that utilization = threshold + {-5..5, +-0.49/0.5/0.51, 1, 1.49, 1.5} percent; non-trivial = '
         'utilization within (-1.6,+2.6) percent of the threshold, or the incoming pod\'s own estimate tips the node over. interleave: harness-owned '
         'interleaving on one node: a reader holds the nodeInfo read lock while an emptying event (NodeMetric delete / removal of '
         'the last pod) and an adding event (Reserve / pod add / bound update / NodeMetric add) are started in a drawn order and queue '
         'behind it; after both returned and the report re-appeared the drift oracle runs at quiescence (expected state = sequential '
         'application in start order); non-trivial = an add queued behind a delete that empties the nodeInfo. distinct = '
         'FNV-64 fingerprint of the full case.',
 'assumptions': ['per-pod estimates (estimator.EstimatePod) and the koordinator priority class of a pod are inputs, not under test',
                 'a NodeMetric with a non-empty status always carries status.updateTime (koordlet sets it on every report); PodsMetric '
                 'entries have unique namespace/name; no two live pods share namespace/name',
                 'priority-class / QoS labels and the custom estimation annotations of a pod are immutable (webhook); priority flips are '
                 'generated through spec.priority',
                 'assign time of a pod without PodScheduled=True condition = cache clock at the last event that (re)stored it (an update '
                 're-stores iff spec or conditions changed)',
                 'when the report carries no usage vector for the queried mode (no status.nodeMetric, or an aggregation period that was '
                 'not reported) the estimate is the sum of the full estimates of the assigned pods (documented fallback)',
                 'integer-percent rounding of the code is adopted: pass allowed iff round_half_up(100*est/alloc) <= threshold, evaluated '
                 'in big.Int; cases within 1e-9 (relative) of the x.5 boundary are not judged; resources with zero allocatable or zero '
                 'threshold are not thresholded',
                 'Filter reads the wall clock for expiry: update times are generated >= 1 h away from the expiry boundary'],
 'units': [{'name': 'loadaware',
            'pkg': 'pkg/scheduler/plugins/loadaware',
            'files': ['C08/c08_common_test.go', 'C08/c08_drift_test.go', 'C08/c08_decision_test.go', 'C08/c08_interleave_test.go'],
            'tests': [{'run': 'TestVerifC08Drift', 'quick': 1500, 'thorough': 8000, 'steps': 40, 'quick_shards': 2},
                      {'run': 'TestVerifC08Decision', 'quick': 8000, 'thorough': 40000, 'quick_shards': 2},
                      {'run': 'TestVerifC08Interleave', 'quick': 600, 'thorough': 3000}]}],
 'manifest': {'technique': 'property-based testing (rapid): model-based state machine over the pod-assign cache with a differential '
                           '(fresh cache) and a from-scratch reference computation; generated-input one-directional oracle for Filter '
                           'with exact big-integer threshold arithmetic',
              'text': 'Generated event histories (reserve/rollback, pod add/update/delete incl. node change, priority flip, '
                      'termination, NodeMetric add/update/delete with timestamps aimed at the report-interval and estimation-deadline '
                      'boundaries) are applied to podAssignCache; after every event the vector returned by '
                      'GetNodeMetricAndEstimatedOfExisting for every node and every query mode must equal both a fresh cache fed the '
                      'final metric and pods and an independent from-scratch computation (usage + sum over not-yet-reflected pods of '
                      'max(estimate - reported, 0)); read-only probes run the real Filter/Score consumers in between (they must leave the kept '
                      'estimate unchanged and return the same verdict/score when repeated) and returned vectors are scribbled over to '
                      'detect aliasing of cached sums. Plugin.Filter is run on generated (args, node, metric, assigned pods, incoming pod) '
                      'with allocatable aimed at the threshold boundary; a pass is a violation when the exact utilization rounds above '
                      'the configured percentage in any thresholded resource; expired metrics must be rejected/skipped exactly as '
                      'configured and nodes without a metric skipped. Exploration, not proof.',
              'note': "estimator output and priority classification are inputs; rapid's PRNG and shrinker; wall clock only for expiry "
                      '(>= 1 h margins); rejection of an under-threshold node is counted, not asserted (statement is one-directional)'}}
