# C10 registry entry: see lib/registry.py for the field meanings
PROP = {'rule': 'rapid-generated cases. budget: (capacity 1-256 cores incl. fractional, allocatable, node reservation expressed both by the '
         'kubelet (capacity-allocatable, cpu and memory) and by the annotation none/quantity/reservedCPUs/both/memory-only/malformed '
         'with an optional memory entry, so the two multi-resource lists can be ordered differently per resource, threshold 0-100, min-percent nil/0-100, 0-8 pods with koordinator QoS label x kube QoS x '
         'meta-missing x metric-missing, 0-3 host apps, node usage above/below the pod sum) + one metamorphic growth step; non-trivial = '
         'a non-BE and a BE pod both have usage and the result is not floored by min-percent. setPolicy: (processor list sockets1-2 x '
         'numa1-2 x cores1-16 x threads{1,2,4}, adjacent or split sibling numbering, offline CPUs, NUMA off; arbitrary sub-list; want '
         '1..len+2); non-trivial = 3 <= want <= len and (more than one NUMA/socket bucket or a core with an odd number of offered '
         'threads). adjustByCPUSet: same processor lists + LSE/LSR pods owning disjoint CPU chunks, other LS/BE/SYSTEM/unlabelled pods '
         'with (possibly malformed) cpuset annotations, node reserved-CPU and system-QoS annotations, kubelet policy none/static, '
         'cgroup v1/v2, BE pod/container dirs, old BE cpuset, 1-3 rounds of budgets aimed at eligible / old+step / processor-count '
         'boundaries; modes all-protected and nearly-all-protected are generated on purpose; non-trivial = an LSE and an LSR pod with '
         'non-empty cpusets and target < eligible in some round. cfsQuota: (capacity, budget, current quota incl. unset and values at '
         '+-1 of the bypass / step boundaries, cgroup v1/v2); non-trivial = quota rewritten from a set value. suppressHistory: the same '
         'scenarios, 2-5 rounds of the real suppressBECPU on one plugin + one executor (cache started, no sleeping), NodeSLO policy '
         'drawn per round (cfsQuota / cpuset / disabled / BECPUManager gate), load equal to or different from the previous round; '
         'non-trivial = the history switches back to a policy it used before. In adjustByCPUSet and suppressHistory the BE tree may '
         'start non-uniform (descendants narrower than the root) and, under kubelet policy none, a crash-recovery state is injected '
         'after a round (root keeps the set, some pod/container dirs are cut to strict non-empty subsets, agent restarted with an '
         'empty executor cache, same inputs repeated). In suppressHistory the reserved-CPU / system-QoS annotations of the node topology '
         'may change between two rounds (annotation-only update: same UID and generation), with a cpuset-mode round favoured right '
         'after the change. largeSplit: nodes of 4-256 processors, reserved / LSE blocks, an LSR pool of any size 1..eligible-1 '
         'in 1-3 LSR pods, old BE cpuset = everything or the eligible CPUs (no step limit), budget at eligible x 1000 +- small deltas, one '
         'adjustByCPUSet round; non-trivial = target equals the number of eligible CPUs on >= 32 processors. '
         'distinct = FNV-64 of the full case.',
 'assumptions': ['pkg/koordlet/util/perf_group/perf_group_linux.go is replaced (build overlay only) by a cgo-free stand-in with the '
                 'same exported surface, because libpfm4 headers are not installed; no oracle touches perf counters',
                 'processor lists are what koordletutil.getProcessorInfos yields: non-empty, unique CPU ids, sorted by (node, socket, core, '
                 'cpu), offline CPUs absent',
                 'a CPU owned by an LSE pod is in no other pod\'s cpuset annotation; LSE/LSR/reserved/system-QoS CPUs are pairwise disjoint '
                 '(scheduler exclusivity); a pod whose resource-status annotation does not parse owns no CPU',
                 'target size restated as min(max(2, ceil(budget)), |old BE cpuset| + ceil(10% of processors)); old = what the agent reads '
                 '(cpuset.cpus on v1, cpuset.cpus.effective on v2, refreshed by the harness between rounds)',
                 'budget tolerance: computed - exact in [-1.001, +3.001] milli-cores; monotonicity slack 3 milli-cores',
                 'quota mode: the documented small-change bypass (<1% of the node) and step limit (10% of the node) are part of the expected '
                 'value; a bypass while the quota is still unset (-1) is reported, because -1 is a sentinel, not a quantity',
                 'a cgroup dir is judged when the plugin handed an update for that file to the executor, or when enough CPUs are eligible '
                 '(then it must hold the target whether or not the round had to write it); values are read back from the files under the '
                 'temp cgroup root. After a cpuset-mode round under kubelet policy none every BE dir must hold the same set as the root; '
                 'under the static policy root/pod dirs that were written must hold every unprotected CPU and all containers the same set',
                 'a crash is modelled as an agent restart (new plugin, new executor cache): files changed behind a running executor '
                 'within its force-update window are not modelled'],
 'units': [{'name': 'cpusuppress',
            'pkg': 'pkg/koordlet/qosmanager/plugins/cpusuppress',
            'files': ['C10/c10_test.go'],
            'tests': [{'run': 'TestVerifC10Budget', 'quick': 3000, 'thorough': 20000},
                      {'run': 'TestVerifC10SetPolicy', 'quick': 3000, 'thorough': 20000},
                      {'run': 'TestVerifC10AdjustCPUSet', 'quick': 2500, 'thorough': 8000},
                      {'run': 'TestVerifC10CfsQuota', 'quick': 2000, 'thorough': 8000},
                      {'run': 'TestVerifC10SuppressHistory', 'quick': 1000, 'thorough': 6000},
                      {'run': 'TestVerifC10LargeSplit', 'quick': 1500, 'thorough': 8000}]}],
 'manifest': {'technique': 'property-based testing (rapid): generated node topologies / pod sets / annotations / usage metrics with an '
                           'independent restatement of the budget formula (big.Rat), a metamorphic monotonicity relation, and set-validity '
                           '+ count oracles on the cpuset / cfs quota actually written under a temporary cgroup root',
              'text': 'Generated-input search over four units of the cpusuppress plugin: the BE budget is compared with an exact '
                      'rational restatement of "capacity x threshold - non-BE pods - non-BE host apps - max(system, reservation), floored '
                      'by min-percent" and must not rise when any non-BE consumption rises; the core-paired selection must return distinct '
                      'offered CPUs, never more than asked and exactly as many when enough are offered; adjustByCPUSet is run end to end '
                      'against a temp cgroup tree (v1/v2, kubelet policy none/static, several rounds) and every written cpuset must avoid '
                      'LSE-owned, node-reserved and system-exclusive CPUs, stay within min(max(2,ceil(budget)), old+step), hit that target '
                      'when enough eligible CPUs exist, and the call must not panic even when no CPU is eligible; adjustByCfsQuota must '
                      'write budget x period floored at the minimum quota, modulo the documented bypass and step limit; multi-round '
                      'histories of suppressBECPU with policy switches must leave, after every round, the mode-appropriate quota / '
                      'cpuset and the recovered value (-1 quota, every unprotected CPU) for the mode not in use. Exploration, not '
                      'proof: absence of violations over the sampled cases.',
              'note': 'perf_group cgo file replaced by a stub at build time; StatesInformer / MetricCache are minimal fakes (only '
                      'GetAllPods, GetNodeTopo, Get(NodeCPUInfoKey)); the real CgroupReader and ResourceUpdateExecutor run against a temp '
                      "directory, not a kernel cgroup fs; rapid's PRNG and shrinker"}}
