# C15 registry entry: see lib/registry.py for the field meanings
PROP = {'rule': 'history: rapid state machine, one weighted "request" action (createUnder an admitted parent 3 / create top-level or arbitrary, incl. the '
         'root/system/default objects as the scheduler creates them 2 / update = stored object with 1-2 edits 4 / reparent 4 / delete 2 / pod '
         'add-or-remove 1; avg 20 steps) over names a..e, parent in names+root+absent(+self, descendants, missing), is-parent label, tree id '
         'in {"",t1,t2}, namespaces subset of {n1,n2,n3}, min/max over {cpu,memory} with absent/0/small/fractional/huge/negative values aimed at '
         'the min-sum and min<=max boundaries (exact fit, +-1), shared-weight annotation (valid/invalid), pods in the stub client (labelled or '
         'namespace-bound); every request goes through the real admission order (fillQuotaDefaultInformation + ValidAddQuota / '
         'ValidUpdateQuota(old stored, new) / ValidDeleteQuota(old stored)), one time in four followed by the informer event of the persisted '
         'change. Overlapping-request rule (1 delete in 3, ~4 % of requests, history unit only): while the DELETE under test is inside its pod List '
         'the stub client starts a second drawn request (create a child under / re-parent another quota under the quota being deleted, or any '
         'create/update) on another goroutine against the same quotaTopology; if the topology lock is held at that moment the two serialise '
         '(delete ; nested), if it is free the hook waits for the nested request (nested ; delete); both verdicts are applied to the model in '
         'that order, the nested goroutine is always joined before the oracle runs. All weight decisions are uniform (built from rapid.Bool bits; rapid biases IntRange/SampledFrom/action choice to small '
         'indices). non-trivial = the history contains an ACCEPTED parent change of a quota that has children; distinct = FNV-64 of the full '
         'history. exhaustive: every request sequence of length <=3 (thorough: <=4, 12 shards partition the first request) over names a,b,c with '
         'parent in {root,a,b,c}, is-parent in {T,F}, min.cpu in {1,2}, max={cpu:2}, namespaces in {none,[n1]}, in two pod environments, '
         'breadth-first; descent only below accepted requests because a rejected request is verified to leave the whole record byte-identical; '
         'non-trivial = the last request is a parent change (accepted or rejected) of a quota that has children. listFault: request histories '
         '(create / createUnder / pods mostly labelled with an admitted quota / delete preferring childless quotas that have labelled pods / '
         'is-parent toggles / updates) in which the stub client FAILS a drawn subset of the pod List calls of a delete or update (first call, '
         'every call, or the k-th call; half of these requests have no fault); same oracle, which never looks at the fault; non-trivial = a '
         'DELETE of a childless quota with >=1 labelled pod had its pod List failed.',
 'assumptions': ['feature gates that change the admission rules are pinned at their defaults (ElasticQuotaEnableUpdateResourceKey, '
                 'ElasticQuotaGuaranteeUsage, SupportParentQuotaSubmitPod, MultiQuotaTree, DisableDefaultQuota = false)',
                 "the escape-hatch labels allow-force-update and is-root are never generated (outside the statement's universe)",
                 'update and delete requests are only sent for stored objects and carry the stored object as oldObject (what the API server does); '
                 'creates may re-use a stored name (the API server runs admission before the storage conflict)',
                 '"a quota with pods" is asserted for pods that carry the quota-name label (the binding ValidDeleteQuota looks up); pods bound only '
                 'through their namespace are generated and counted but not asserted',
                 'pod lists come from a stub client.Client with the semantics of the manager cache for the two list shapes the webhook issues '
                 '(field index label.quotaName as registered in pkg/util/fieldindex, and namespace listing)',
                 'API faults: only a failing client.List for pods during the validation of a delete/update is injected; "List failed => rejected" '
                 'is not asserted as such (only through the clauses: a quota with labelled pods is not deleted, rejected => record unchanged)',
                 'single webhook replica: informer events, when delivered, arrive in order right after the accepted request',
                 'overlapping requests: only the pair (DELETE inside its pod List, one other request) is generated; completion order is decided '
                 'by probing quotaTopology.lock (TryLock) when the List happens, never by a clock; the timers in the hook are safety nets whose '
                 'expiry only serialises the two requests (a legal history)',
                 "the child index of the ROOT (quotaHierarchyInfo[root]) may lose entries when the root object itself is admitted after other quotas "
                 '(ValidAddQuota re-makes the entry); no clause of the statement depends on it, so it is counted, not asserted; tree-id agreement '
                 'along edges and the recorded shared-weight / allow-lent values are likewise only counted'],
 'units': [{'name': 'webhook',
            'pkg': 'pkg/webhook/elasticquota',
            'files': ['C15/c15_quota_tree_test.go'],
            'tests': [{'run': 'TestVerifC15History', 'quick': 6000, 'thorough': 25000, 'steps': 20, 'quick_shards': 3, 'shrinktime': '15s'},
                      {'run': 'TestVerifC15ListFault', 'quick': 3000, 'thorough': 8000, 'steps': 14, 'shrinktime': '15s'},
                      {'run': 'TestVerifC15Exhaustive', 'rapid': False, 'shards': 12, 'env': {'VERIF_C15_SHARDS': '12'},
                       'timeout_quick': 300, 'timeout_thorough': 1500}]}],
 'manifest': {'technique': 'property-based testing (rapid): model-based state machine over admission request histories with an independent '
                           'well-formedness oracle, plus an exhaustive small-scope enumeration of request sequences',
              'text': 'Generated request histories (create/update/delete, pods as environment) are sent through the real admission order of the '
                      'ElasticQuota webhook; the harness keeps its own store of accepted objects, re-derives the tree from the labels and checks '
                      'after every accepted request that the admitted set is a forest under the root (parents exist and are marked is-parent, no '
                      'cycle, min<=max and keys(min) within keys(max), children min sum <= parent min, dimensions agree along edges, one quota per '
                      'namespace, deleted quotas had no children / labelled pods) and that getQuotaTopologyInfo(), TreeID and namespaceToQuotaMap '
                      'say the same; after every rejected request the whole record must be byte-identical. All sequences of <=3 (thorough <=4) '
                      'requests over a 3-name universe are enumerated exhaustively. Exploration, not proof, beyond that scope.',
              'note': "feature gates at defaults; escape-hatch labels not generated; label-bound pods only; root's own child index not asserted; "
                      "rapid's PRNG and shrinker; Go map iteration inside koordinator is not controlled"}}
