#!/usr/bin/env python3
"""Regenerate /verif/MANIFEST.json from lib/registry.py (claimed checks) and lib/manifest_meta.py (texts)."""
import json, os, sys
VERIF = os.path.dirname(os.path.dirname(os.path.abspath(__file__)))
sys.path.insert(0, os.path.join(VERIF, "lib"))
import registry, manifest_meta as mm

props = [json.loads(l) for l in open(os.path.join(VERIF, "properties.jsonl"))]
checks, na = [], []
for p in props:
    pid = p["id"]
    if pid in mm.CLAIMED and pid in registry.PROPS and registry.PROPS[pid].get("manifest"):
        meta = registry.PROPS[pid]["manifest"]
        checks.append({
            "property_id": pid,
            "quick_cmd": "./check %s --tier quick" % pid,
            "thorough_cmd": "./check %s --tier thorough" % pid,
            "evidence_file": "/verif/evidence/%s.json" % pid,
            "replay_cmd_template": "./check %s --replay {path}" % pid,
            "engine": "rapid-overlay",
            "level_claimed": {"category": "exploration", "text": meta["text"], "design_ref": "DESIGN.md §1 " + pid},
            "level_note": meta["note"],
            "technique": meta["technique"],
        })
    else:
        na.append({"property_id": pid, "reason": mm.NOT_APPLICABLE.get(pid, "check not built yet in this session (planned, see DESIGN.md §1 %s); not claimed until the harness exists and is stable" % pid)})
m = {
    "version": 1,
    "setup_cmd": "./setup.sh",
    "hooks": {
        "guard": "verif",
        "enable": "no source hooks: harness _test.go files (//go:build verif) and the helper package are injected at build time with `go test -tags verif -overlay=/verif/.build/<ID>/overlay.json -modfile=/verif/.build/<ID>/go.mod` run from /repo",
        "baseline_off_cmd": "cd /repo && go test -mod=mod -json -vet=off -count=1 -timeout 25m ./...",
        "source_commits": [],
        "add_only": True,
    },
    "engines": [{
        "name": "rapid-overlay", "path": "/verif/check",
        "serves_properties": [c["property_id"] for c in checks],
        "kind_free_text": "property-based testing (pgregory.net/rapid v1.3.0 state machines and generators, in-package via go build overlay) with explicit oracles; native go fuzzing for byte-level targets in the thorough tier",
    }],
    "checks": checks,
    "notes": mm.NOTES,
    "not_applicable": na,
}
json.dump(m, open(os.path.join(VERIF, "MANIFEST.json"), "w"), indent=1)
print("claimed:", [c["property_id"] for c in checks])
print("not claimed:", [x["property_id"] for x in na])
