#!/usr/bin/env python3
"""Driver for the koordinator property-based / fuzz checks (see /verif/DESIGN.md §0.2).

usage: check <ID> [--tier quick|thorough] [--replay <file>] [--build-only] [--only <unit-substr>]

exit 0  property held on everything explored (KNOWN-FINDING lines may be printed)
exit 1  a line `VIOLATION property=<ID> replay=<path>` was printed
exit 2  inconclusive: build failure, timeout, worker death, fewer cases than requested
"""
import concurrent.futures as cf
import hashlib
import json
import os
import re
import shutil
import subprocess
import sys
import time

VERIF = os.path.dirname(os.path.dirname(os.path.abspath(__file__)))
REPO = os.environ.get("VERIF_REPO", "/repo")
BUILD = os.path.join(VERIF, ".build")
SCRATCH = os.path.realpath(REPO) != "/repo"   # mutant / seeded-change runs must not overwrite evidence or replays
sys.path.insert(0, os.path.join(VERIF, "lib"))
import registry  # noqa: E402

MODULE = "github.com/koordinator-sh/koordinator"
RAPID_REQ = "pgregory.net/rapid v1.3.0"
MAX_WORKERS = int(os.environ.get("VERIF_WORKERS", "14"))
THOROUGH_SCALE = float(os.environ.get("VERIF_THOROUGH_SCALE", "3"))


def log(*a):
    print(*a, flush=True)


def go_env():
    env = dict(os.environ)
    env["GOFLAGS"] = "-mod=mod"
    env["GOPROXY"] = "off"
    env.pop("GOSUMDB", None)       # must stay default: =off breaks the offline toolchain switch
    env["GOTOOLCHAIN"] = "auto"    # /repo/go.mod needs go1.25.0 (cached); default go is older
    env["GONOSUMDB"] = "*"
    env["GONOSUMCHECK"] = "1"
    env["GOFLAGS"] = "-mod=mod"
    env.setdefault("GOMAXPROCS", "16")
    return env


def prepare(pid, prop):
    """Regenerate modfile, go.sum and overlay for one property. Returns build dir."""
    bdir = os.path.join(BUILD, pid)
    os.makedirs(bdir, exist_ok=True)
    with open(os.path.join(REPO, "go.mod")) as f:
        gomod = f.read()
    if "pgregory.net/rapid" not in gomod:
        gomod += "\nrequire %s\n" % RAPID_REQ
    with open(os.path.join(bdir, "go.mod"), "w") as f:
        f.write(gomod)
    shutil.copyfile(os.path.join(REPO, "go.sum"), os.path.join(bdir, "go.sum"))
    replace = {}
    # shared helper package
    vkdir = os.path.join(VERIF, "harness", "vk")
    for fn in sorted(os.listdir(vkdir)):
        if fn.endswith(".go"):
            replace[os.path.join(REPO, "pkg/verifkit/vk", fn)] = os.path.join(vkdir, fn)
    # cgo-free stand-in for perf_group (koordlet packages)
    replace[os.path.join(REPO, "pkg/koordlet/util/perf_group/perf_group_linux.go")] = \
        os.path.join(VERIF, "harness", "stubs", "perf_group_linux.go")
    for unit in prop["units"]:
        for src in unit["files"]:
            base = os.path.basename(src)
            dst = os.path.join(REPO, unit["pkg"], "zz_verif_" + base)
            replace[dst] = os.path.join(VERIF, "harness", src)
    with open(os.path.join(bdir, "overlay.json"), "w") as f:
        json.dump({"Replace": replace}, f, indent=1)
    return bdir


def fuzz_in_quick(pid, t):
    """In the quick tier a native fuzz target only runs (as plain regression) when committed crashers exist for it."""
    d = os.path.join(VERIF, "regress", pid, "fuzz", t["run"])
    return os.path.isdir(d) and len(os.listdir(d)) > 0


def variant_of(t):
    return "fuzz" if t.get("fuzz") else ("race" if t.get("race") else "")


def build_unit(pid, unit, bdir, variant):
    if variant is True:
        variant = "race"
    variant = variant or ""
    out = os.path.join(bdir, unit["name"] + ("." + variant if variant else "") + ".test")
    cmd = ["go", "test", "-c", "-tags", "verif", "-vet=off",
           "-modfile=" + os.path.join(bdir, "go.mod"),
           "-overlay=" + os.path.join(bdir, "overlay.json"),
           "-o", out]
    if variant == "race":
        cmd.append("-race")
    if variant == "fuzz":
        cmd.append("-fuzz=FuzzVerif")  # coverage instrumentation for native fuzzing
    cmd.append("./" + unit["pkg"])
    t0 = time.time()
    p = subprocess.run(cmd, cwd=REPO, env=go_env(), stdout=subprocess.PIPE, stderr=subprocess.STDOUT, text=True)
    dt = time.time() - t0
    if p.returncode != 0 or not os.path.exists(out):
        return None, p.stdout, dt
    return out, p.stdout, dt


def known_findings(pid):
    path = os.path.join(VERIF, "known_findings.json")
    if not os.path.exists(path):
        return []
    with open(path) as f:
        data = json.load(f)
    return [e for e in data.get("findings", []) if e.get("property") == pid]


RE_OK = re.compile(r"\[rapid\] OK, passed (\d+) tests")
RE_SIG = re.compile(r"VERIF-SIG\[([^\]]+)\]")
RE_FAILFILE = re.compile(r'-rapid\.failfile="([^"]+)"')


def run_job(job):
    """Run one test-binary invocation. Returns a result dict."""
    os.makedirs(job["cwd"], exist_ok=True)
    os.makedirs(job["stats"], exist_ok=True)
    env = dict(os.environ)
    env.update(job["env"])
    t0 = time.time()
    try:
        p = subprocess.run(job["cmd"], cwd=job["cwd"], env=env, stdout=subprocess.PIPE,
                           stderr=subprocess.STDOUT, text=True, errors="replace",
                           timeout=job["timeout"] + 60)
        rc, out, timed_out = p.returncode, p.stdout, False
    except subprocess.TimeoutExpired as e:
        rc, out, timed_out = -9, (e.stdout or b"").decode("utf-8", "replace") if isinstance(e.stdout, bytes) else (e.stdout or ""), True
    job = dict(job)
    job.update(rc=rc, out=out, timed_out=timed_out, wall=time.time() - t0)
    return job


def classify(job):
    """-> ('ok'|'violation'|'inconclusive', detail)"""
    out = job["out"]
    if job["timed_out"] or "panic: test timed out" in out:
        return "inconclusive", "timeout"
    if job["rc"] == 0:
        if job.get("rapid"):
            m = RE_OK.findall(out)
            if not m:
                return "inconclusive", "no rapid OK line"
            n = min(int(x) for x in m)
            if n < job["checks"]:
                return "inconclusive", "only %d of %d cases executed" % (n, job["checks"])
        if "no tests to run" in out:
            return "inconclusive", "no tests to run"
        return "ok", ""
    if job["rc"] < 0 or "signal: killed" in out or "cannot allocate memory" in out or "out of memory" in out:
        return "inconclusive", "worker death rc=%s" % job["rc"]
    if RE_SIG.search(out) or "[rapid] failed after" in out or "[rapid] panic after" in out \
            or "[rapid] flaky test" in out or "WARNING: DATA RACE" in out or "--- FAIL" in out or "panic:" in out:
        return "violation", ""
    return "inconclusive", "exit code %s without a recognised failure" % job["rc"]


def signature(job):
    out = job["out"]
    sigs = RE_SIG.findall(out)
    if sigs:
        return sigs[-1]
    if "WARNING: DATA RACE" in out:
        return "data-race"
    if "[rapid] panic after" in out or "panic:" in out:
        return "panic"
    if "[rapid] flaky test" in out:
        return "flaky"
    if job.get("fuzz"):
        return "fuzz-crash"
    return "unclassified"


def save_replay(pid, job, sig):
    rdir = os.path.join(BUILD, pid, "replays-scratch") if SCRATCH else os.path.join(VERIF, "replays", pid)
    os.makedirs(rdir, exist_ok=True)
    tag = "%s__%s__seed%s" % (job["unit"], job["test"], job["seed"])
    m = RE_FAILFILE.findall(job["out"])
    path = None
    for ff in m:
        src = ff if os.path.isabs(ff) else os.path.join(job["cwd"], ff)
        if os.path.exists(src):
            path = os.path.join(rdir, tag + ".fail")
            shutil.copyfile(src, path)
            break
    if job.get("fuzz"):
        mm = re.findall(r"Failing input written to (\S+)", job["out"])
        for ff in mm:
            src = ff if os.path.isabs(ff) else os.path.join(job["cwd"], ff)
            if os.path.exists(src):
                path = os.path.join(rdir, "%s__%s__fuzz-%s.fuzzinput" % (job["unit"], job["test"], os.path.basename(src)))
                shutil.copyfile(src, path)
                break
    logp = os.path.join(rdir, tag + ".log")
    with open(logp, "w") as f:
        f.write("# property=%s unit=%s test=%s seed=%s signature=%s\n# cmd: %s\n" %
                (pid, job["unit"], job["test"], job["seed"], sig, " ".join(job["cmd"])))
        f.write(job["out"][-200000:])
    return path or logp


def make_fuzz_job(pid, unit, t, tier, binp, bdir, known, seed_base):
    """Native go fuzzing (coverage guided). thorough: fuzz for t['fuzztime']; quick: only re-run the seed corpus, the committed
    corpus (harness/<ID>/corpus/<Fuzz>/) and the committed crashers (regress/<ID>/fuzz/<Fuzz>/) as plain regression inputs."""
    name = t["run"]
    tag = "%s.%s.fuzz" % (unit["name"], name)
    cwd = os.path.join(bdir, "run", tag)
    shutil.rmtree(cwd, ignore_errors=True)
    cdir = os.path.join(cwd, "testdata", "fuzz", name)
    os.makedirs(cdir, exist_ok=True)
    for src in (os.path.join(VERIF, "harness", pid, "corpus", name), os.path.join(VERIF, "regress", pid, "fuzz", name)):
        if os.path.isdir(src):
            for fn in sorted(os.listdir(src)):
                shutil.copyfile(os.path.join(src, fn), os.path.join(cdir, fn))
    stats = os.path.join(bdir, "stats", tag)
    shutil.rmtree(stats, ignore_errors=True)
    fuzzing = tier == "thorough"
    ftime = t.get("fuzztime", "45s")
    secs = int(re.sub(r"[^0-9]", "", ftime) or "45") * (60 if ftime.endswith("m") else 1)
    if fuzzing:
        cmd = [binp, "-test.run", "^$", "-test.fuzz", "^" + name + "$", "-test.fuzztime", ftime,
               "-test.fuzzcachedir", os.path.join(bdir, "fuzzcache", name), "-test.v"]
    else:
        cmd = [binp, "-test.run", "^" + name + "$", "-test.count=1", "-test.v"]
    env = {"VERIF_STATS_DIR": stats, "VERIF_KNOWN": known, "VERIF_TIER": tier, "VERIF_SEED_EFFECTIVE": str(seed_base * 1000 + 1),
           "VERIF_REPO": REPO, "GOMAXPROCS": str(t.get("fuzz_procs", 8))}
    return {"unit": unit["name"], "test": name, "shard": 0, "seed": seed_base * 1000 + 1, "cmd": cmd, "cwd": cwd, "stats": stats,
            "env": env, "timeout": secs + 240, "checks": 0, "rapid": False, "race": False, "fuzz": True, "fuzzing": fuzzing}


def make_jobs(pid, prop, tier, seed_base, bins, bdir, only=None):
    jobs = []
    known = ",".join(e["signature"] for e in known_findings(pid) if e.get("status") == "known")
    if os.environ.get("VERIF_KNOWN_EXTRA"):  # development aid only: continue the search behind a not-yet-recorded finding
        known = ",".join(x for x in [known, os.environ["VERIF_KNOWN_EXTRA"]] if x)
    for unit in prop["units"]:
        for t in unit["tests"]:
            if only and only not in unit["name"] and only not in t["run"]:
                continue
            if tier == "quick" and (t.get("thorough_only") or t.get("fuzz")) and not (t.get("fuzz") and fuzz_in_quick(pid, t)):
                continue
            race = bool(t.get("race"))
            binp = bins.get((unit["name"], variant_of(t)))
            if binp is None:
                continue
            if t.get("fuzz"):
                jobs.append(make_fuzz_job(pid, unit, t, tier, binp, bdir, known, seed_base))
                continue
            checks = t.get(tier, t.get("quick", 100))
            shards = t.get("shards", 12) if tier == "thorough" else t.get("quick_shards", 1)
            timeout = t.get("timeout_" + tier, 1500 if tier == "thorough" else 420)
            if tier == "thorough" and t.get("rapid", True):
                # the registry holds the per-process counts the harness authors measured (1-4 min per property);
                # the thorough tier multiplies them (default x3, still bounded: case counts, not a time limit, decide)
                checks = int(checks * THOROUGH_SCALE)
                timeout = int(timeout * max(1.0, THOROUGH_SCALE)) + 600
            for sh in range(shards):
                seed = seed_base * 1000 + sh + 1
                tag = "%s.%s.%d" % (unit["name"], t["run"], sh)
                cwd = os.path.join(bdir, "run", tag)
                shutil.rmtree(cwd, ignore_errors=True)
                stats = os.path.join(bdir, "stats", tag)
                shutil.rmtree(stats, ignore_errors=True)
                cmd = [binp, "-test.run", "^" + t["run"] + "$", "-test.count=1", "-test.v",
                       "-test.timeout", "%ds" % timeout]
                rapid = t.get("rapid", True)
                if rapid:
                    cmd += ["-rapid.checks=%d" % checks, "-rapid.seed=%d" % seed]
                    if t.get("steps"):
                        cmd += ["-rapid.steps=%d" % t["steps"]]
                    if t.get("shrinktime"):
                        cmd += ["-rapid.shrinktime=" + t["shrinktime"]]
                env = {"VERIF_STATS_DIR": stats, "VERIF_KNOWN": known, "VERIF_TIER": tier,
                       "VERIF_SEED_EFFECTIVE": str(seed), "VERIF_REPO": REPO,
                       "VERIF_SCALE": str(t.get("scale_" + tier, 1)),
                       "VERIF_CHECKS": str(checks)}
                if race:
                    env["GORACE"] = "halt_on_error=1"
                env.update(t.get("env", {}))
                jobs.append({"unit": unit["name"], "test": t["run"], "shard": sh, "seed": seed, "cmd": cmd,
                             "cwd": cwd, "stats": stats, "env": env, "timeout": timeout, "checks": checks,
                             "rapid": rapid, "race": race})
    # replay tier: committed shrunk failures (fixed findings, seeded mutants) are re-run first, bypassing generation
    rdir = os.path.join(VERIF, "regress", pid)
    if os.path.isdir(rdir) and not only:
        for fn in sorted(os.listdir(rdir)):
            m = re.match(r"(.+?)__(.+?)__(.+)\.fail$", fn)
            if not m:
                continue
            uname, test = m.group(1), m.group(2)
            tdef = None
            for unit in prop["units"]:
                if unit["name"] == uname:
                    tdef = next((t for t in unit["tests"] if t["run"] == test), None)
            if tdef is None:
                continue
            race = bool(tdef.get("race"))
            binp = bins.get((uname, variant_of(tdef)))
            if binp is None:
                continue
            tag = "regress.%s" % fn
            cwd = os.path.join(bdir, "run", tag)
            shutil.rmtree(cwd, ignore_errors=True)
            stats = os.path.join(bdir, "stats", tag)
            shutil.rmtree(stats, ignore_errors=True)
            cmd = [binp, "-test.run", "^" + test + "$", "-test.count=1", "-test.v", "-test.timeout", "300s",
                   "-rapid.failfile=" + os.path.join(rdir, fn), "-rapid.checks=0", "-rapid.seed=1", "-rapid.nofailfile"]
            if tdef.get("steps"):  # the Repeat coin depends on it: a fail file only replays under the value it was recorded with
                cmd += ["-rapid.steps=%d" % tdef["steps"]]
            env = {"VERIF_STATS_DIR": "", "VERIF_KNOWN": known, "VERIF_TIER": tier, "VERIF_SEED_EFFECTIVE": "1",
                   "VERIF_REPO": REPO, "VERIF_SCALE": "1", "VERIF_CHECKS": "1"}
            jobs.append({"unit": uname, "test": test, "shard": 0, "seed": 0, "cmd": cmd, "cwd": cwd, "stats": stats,
                         "env": env, "timeout": 300, "checks": 0, "rapid": True, "race": race, "regress": os.path.join(rdir, fn)})
    return jobs


def merge_stats(jobs):
    units = {}
    for j in jobs:
        if not os.path.isdir(j["stats"]):
            continue
        for fn in sorted(os.listdir(j["stats"])):
            if not fn.endswith(".json"):
                continue
            try:
                with open(os.path.join(j["stats"], fn)) as f:
                    s = json.load(f)
            except Exception:
                continue
            key = s["unit"]
            u = units.setdefault(key, {"cases": 0, "nontrivial": 0, "fps": set(), "classes": {}, "samples": [],
                                       "known_hits": {}, "known_examples": {}, "notes": {}, "exhaustive": False,
                                       "fp_dropped": 0})
            u["cases"] += s["cases"]
            u["nontrivial"] += s["nontrivial"]
            u["fps"].update(s["fingerprints"])
            u["fp_dropped"] += s.get("fingerprints_dropped", 0)
            for k, v in s["classes"].items():
                u["classes"][k] = u["classes"].get(k, 0) + v
            if len(u["samples"]) < 6:
                u["samples"].extend((s.get("samples") or [])[: 6 - len(u["samples"])])
            for k, v in (s.get("known_hits") or {}).items():
                u["known_hits"][k] = u["known_hits"].get(k, 0) + v
            for k, v in (s.get("known_examples") or {}).items():
                u["known_examples"].setdefault(k, v)
            u["notes"].update(s.get("notes") or {})
            u["exhaustive"] = u["exhaustive"] or s.get("exhaustive", False)
    return units


def write_evidence(pid, prop, tier, seed, units, wall, violations, inconclusive, known_lines, jobs):
    evaluations = sum(u["cases"] for u in units.values())
    distinct = sum(len(u["fps"]) for u in units.values())
    samples = []
    for name in sorted(units):
        for s in units[name]["samples"][:3]:
            samples.append({"unit": name, "case": s})
    per_unit = {}
    for name in sorted(units):
        u = units[name]
        per_unit[name] = {"evaluations": u["cases"], "nontrivial": u["nontrivial"],
                          "distinct_nontrivial": len(u["fps"]), "classes": dict(sorted(u["classes"].items())),
                          "exhaustive": u["exhaustive"], "notes": u["notes"],
                          "known_finding_hits": u["known_hits"]}
    fuzz = {}
    for j in jobs:
        if j.get("fuzz"):
            ex = re.findall(r"execs: (\d+)", j["out"])
            ni = re.findall(r"new interesting: \d+ \(total: (\d+)\)", j["out"])
            base = re.findall(r"gathering baseline coverage: \d+/(\d+) completed", j["out"])
            fuzz[j["unit"] + "/" + j["test"]] = {"mode": "coverage-guided fuzzing" if j.get("fuzzing") else "corpus replay only",
                                               "execs": int(ex[-1]) if ex else 0,
                                               "corpus_total_interesting": int(ni[-1]) if ni else 0,
                                               "baseline_corpus": int(base[-1]) if base else 0, "wall_s": round(j["wall"], 1)}
    ev = {
        "property_id": pid,
        "tier": tier,
        "seed": seed,
        "level": "exploration",
        "coverage": {
            "evaluations": evaluations,
            "distinct_nontrivial": distinct,
            "rule": prop["rule"],
            "samples": samples,
            "exhaustive": False,
            "units": per_unit,
            "exhaustive_units": sorted(n for n, u in units.items() if u["exhaustive"]),
            "processes": len(jobs),
            "native_fuzz": fuzz,
            "inconclusive": inconclusive,
            "known_findings_reported": known_lines,
        },
        "assumptions": prop.get("assumptions", []),
        "wall_s": round(wall, 2),
        "violations": violations,
    }
    edir = os.path.join(BUILD, pid, "evidence-scratch") if SCRATCH else os.path.join(VERIF, "evidence")
    os.makedirs(edir, exist_ok=True)
    tmp = os.path.join(edir, pid + ".json.tmp")
    with open(tmp, "w") as f:
        json.dump(ev, f, indent=1, sort_keys=False)
        f.write("\n")
    os.replace(tmp, os.path.join(edir, pid + ".json"))


def do_replay(pid, prop, path, bdir):
    base = os.path.basename(path)
    m = re.match(r"(.+?)__(.+?)__(.+)\.(fail|log|fuzzinput)$", base)
    if not m:
        log("cannot parse replay file name", base)
        return 2
    uname, test, kind = m.group(1), m.group(2), m.group(4)
    ms = re.match(r"seed(\d+)$", m.group(3))
    seed = int(ms.group(1)) if ms else 1
    unit = next((u for u in prop["units"] if u["name"] == uname), None)
    if unit is None:
        log("unknown unit", uname)
        return 2
    tdef = next((t for t in unit["tests"] if t["run"] == test), None)
    binp, out, _ = build_unit(pid, unit, bdir, variant_of(tdef or {}))
    if binp is None:
        log(out[-4000:])
        log("INCONCLUSIVE property=%s build failed" % pid)
        return 2
    cwd = os.path.join(bdir, "run", "replay")
    shutil.rmtree(cwd, ignore_errors=True)
    os.makedirs(cwd)
    cmd = [binp, "-test.run", "^" + test + "$", "-test.count=1", "-test.v", "-test.timeout", "600s"]
    known = ""  # a replay never suppresses
    env = dict(os.environ)
    env.update({"VERIF_KNOWN": known, "VERIF_TIER": "quick", "VERIF_SEED_EFFECTIVE": str(seed), "VERIF_REPO": REPO})
    if kind == "fuzzinput":
        cdir = os.path.join(cwd, "testdata", "fuzz", test)
        os.makedirs(cdir, exist_ok=True)
        shutil.copyfile(path, os.path.join(cdir, "replayed-input"))
    elif kind == "fail":
        cmd += ["-rapid.failfile=" + os.path.abspath(path), "-rapid.checks=0", "-rapid.seed=%d" % (seed or 1), "-rapid.nofailfile"]
        if tdef and tdef.get("steps"):
            cmd += ["-rapid.steps=%d" % tdef["steps"]]
    else:
        checks = (tdef or {}).get("quick", 100)
        cmd += ["-rapid.checks=%d" % checks, "-rapid.seed=%d" % seed, "-rapid.nofailfile"]
        if tdef and tdef.get("steps"):
            cmd += ["-rapid.steps=%d" % tdef["steps"]]
    p = subprocess.run(cmd, cwd=cwd, env=env, stdout=subprocess.PIPE, stderr=subprocess.STDOUT, text=True, errors="replace")
    i = p.stdout.find("VERIF-SIG[")
    if i >= 0 and len(p.stdout) - i > 6000:
        log(p.stdout[max(0, i - 500): i + 3000])
        log("[...]")
    log(p.stdout[-6000:])
    if p.returncode != 0:
        log("VIOLATION property=%s replay=%s" % (pid, path))
        return 1
    log("replay passed: property=%s %s" % (pid, path))
    return 0


def main(argv):
    import argparse
    ap = argparse.ArgumentParser()
    ap.add_argument("id")
    ap.add_argument("--tier", default=os.environ.get("VERIF_TIER", "quick"), choices=["quick", "thorough"])
    ap.add_argument("--replay")
    ap.add_argument("--build-only", action="store_true")
    ap.add_argument("--only")
    a = ap.parse_args(argv)
    pid = a.id
    if pid not in registry.PROPS:
        log("unknown property", pid)
        return 2
    prop = registry.PROPS[pid]
    try:
        seed = int(os.environ.get("VERIF_SEED", "1"))
    except ValueError:
        seed = int(hashlib.sha256(os.environ["VERIF_SEED"].encode()).hexdigest()[:6], 16)
    seed = abs(seed) % 1000000 or 1
    t0 = time.time()
    # one invocation per property at a time: build, run and stats directories are keyed by the property id only
    import fcntl
    os.makedirs(os.path.join(BUILD, pid), exist_ok=True)
    lockf = open(os.path.join(BUILD, pid, ".lock"), "w")
    fcntl.flock(lockf, fcntl.LOCK_EX)
    t0 = time.time()
    bdir = prepare(pid, prop)
    if a.replay:
        return do_replay(pid, prop, a.replay, bdir)

    # ---- build
    need = set()
    for unit in prop["units"]:
        for t in unit["tests"]:
            if a.tier == "quick" and (t.get("thorough_only") or t.get("fuzz")) and not (t.get("fuzz") and fuzz_in_quick(pid, t)):
                continue
            need.add((unit["name"], variant_of(t)))
    bins = {}
    build_failed = []
    units_by_name = {u["name"]: u for u in prop["units"]}
    with cf.ThreadPoolExecutor(max_workers=2) as ex:
        futs = {ex.submit(build_unit, pid, units_by_name[n], bdir, r): (n, r) for (n, r) in sorted(need)}
        for fut in cf.as_completed(futs):
            n, r = futs[fut]
            binp, out, dt = fut.result()
            if binp is None:
                build_failed.append((n, r, out))
            else:
                bins[(n, r)] = binp
                log("built %s%s in %.1fs" % (n, " (%s)" % r if r else "", dt))
    if build_failed:
        for n, r, out in build_failed:
            log("BUILD FAILED unit=%s race=%s\n%s" % (n, r, out[-6000:]))
        log("INCONCLUSIVE property=%s build failed (exit 2)" % pid)
        return 2
    if a.build_only:
        return 0

    # ---- run
    jobs = make_jobs(pid, prop, a.tier, seed, bins, bdir, a.only)
    results = []
    with cf.ThreadPoolExecutor(max_workers=MAX_WORKERS) as ex:
        for r in ex.map(run_job, jobs):
            results.append(r)

    kf = known_findings(pid)
    known_sigs = {e["signature"]: e for e in kf if e.get("status") == "known"}
    violations = 0
    inconclusive = []
    printed_known = set()
    exit_code = 0
    for r in results:
        verdict, detail = classify(r)
        if verdict == "ok":
            continue
        if verdict == "inconclusive":
            inconclusive.append("%s/%s shard %d: %s" % (r["unit"], r["test"], r["shard"], detail))
            log("INCONCLUSIVE property=%s unit=%s test=%s shard=%d: %s" % (pid, r["unit"], r["test"], r["shard"], detail))
            log(r["out"][-3000:])
            continue
        sig = signature(r)
        path = r.get("regress") or save_replay(pid, r, sig)
        if sig in known_sigs:
            # should not normally happen (harness abandons known cases itself), but keep the contract
            printed_known.add(sig)
            continue
        violations += 1
        exit_code = 1
        tail = r["out"]
        i = tail.find("VERIF-SIG[")
        log("---- failing output (unit=%s test=%s seed=%d signature=%s) ----" % (r["unit"], r["test"], r["seed"], sig))
        log(tail[max(0, i - 1500): i + 6000] if i >= 0 else tail[-8000:])
        log("VIOLATION property=%s replay=%s" % (pid, path))

    units = merge_stats(results)
    known_lines = []
    for sig, e in sorted(known_sigs.items()):
        hits = sum(u["known_hits"].get(sig, 0) for u in units.values())
        line = "KNOWN-FINDING: property=%s %s [signature=%s; reproduced %d times in this run]" % (pid, e["what"], sig, hits)
        known_lines.append(line)
        log(line)
    if exit_code == 0 and inconclusive:
        exit_code = 2
    wall = time.time() - t0
    write_evidence(pid, prop, a.tier, seed, units, wall, violations, inconclusive, known_lines, results)
    tot = sum(u["cases"] for u in units.values())
    dn = sum(len(u["fps"]) for u in units.values())
    log("property=%s tier=%s seed=%d cases=%d distinct_nontrivial=%d violations=%d inconclusive=%d wall=%.1fs exit=%d" %
        (pid, a.tier, seed, tot, dn, violations, len(inconclusive), wall, exit_code))
    return exit_code


if __name__ == "__main__":
    sys.exit(main(sys.argv[1:]))
