NOTES = ("All checks: ./check <ID> [--tier quick|thorough]; seeds derive from VERIF_SEED (rapid seed = VERIF_SEED*1000+shard+1). "
         "Exit 2 = inconclusive (build failure, timeout, fewer cases than requested), never a violation. "
         "Genuine defects found by the checks were repaired by 'fix:' commits in /repo and are listed in known_findings.json; "
         "their shrunk inputs are replayed on every run from regress/<ID>/. Eight findings are recorded as open (status known: C06 x2, C11, C14, C19 x4) "
         "and are printed as KNOWN-FINDING lines with exit 0; any other violation of the same property has a different signature and is reported as VIOLATION. "
         "407 independently seeded property-breaking changes are kept under seeded/ (DESIGN.md section 5).")

NOT_APPLICABLE = {}


# Properties whose check has been reviewed by the coordinator and is registered in MANIFEST.json.
# (A lib/props/<ID>.py file may exist earlier than that while its harness is still being built.)
CLAIMED = ["C01", "C02", "C03", "C04", "C05", "C06", "C07", "C08", "C09", "C10", "C11", "C12", "C13", "C14", "C15", "C16", "C17", "C18", "C19", "C20"]
