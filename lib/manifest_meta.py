NOTES = ("All checks: ./check <ID> [--tier quick|thorough]; seeds derive from VERIF_SEED (rapid seed = VERIF_SEED*1000+shard+1). "
         "Exit 2 = inconclusive (build failure, timeout, fewer cases than requested), never a violation. "
         "Genuine defects found by the checks were repaired by 'fix:' commits in /repo and are listed in known_findings.json; "
         "their shrunk inputs are replayed on every run from regress/<ID>/.")

NOT_APPLICABLE = {}

CHECKS = {
 "C06": {
  "technique": "property-based testing (rapid): generated topologies/free sets/hints with validity + completeness oracle, and a model-based state machine over allocate/update/release",
  "text": ("Generated-input search: every takeCPUs/takePreferredCPUs result is checked for exact count and containment in the free set on arbitrary "
           "(asymmetric) free sets; the NUMA split is checked two-directionally (exact, per-node bounded, inside the hint, and succeeds iff the hinted "
           "nodes together hold the request for divisible resources) for any subset hint; allocate/update/release histories are compared after every "
           "step with a reference model of per-CPU holders and per-NUMA sums. Exploration, not proof: absence of violations over the sampled cases."),
  "note": "regular topologies; allocations enter the ledger only via Allocate+Update; rapid's PRNG and shrinker; Go map iteration inside koordinator is not controlled",
 },
}
