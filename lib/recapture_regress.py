#!/usr/bin/env python3
"""Re-capture the regress fail files of every fixed finding with the CURRENT harnesses.

A rapid fail file is only meaningful for the generator it was recorded with, so after a harness is extended its old regress
files go stale. For each fixed finding F (commit C) of each property: check out C^ into a scratch worktree, run the quick check
there with every OTHER signature of the property treated as known (so the search reaches F), and keep the shrunk fail files
whose violation signature is F's. Then verify: the kept files fail at C^ and pass on /repo HEAD.

usage: lib/recapture_regress.py [ID ...]
"""
import json, os, re, shutil, subprocess, sys, glob

V = os.path.dirname(os.path.dirname(os.path.abspath(__file__)))
KF = os.path.join(V, "known_findings.json")


def slug(s):
    return re.sub(r"[^a-z0-9]+", "-", s.lower()).strip("-")[:60]


def run(cmd, env=None):
    return subprocess.run(cmd, cwd=V, env=env, capture_output=True, text=True)


def main():
    args = sys.argv[1:]
    out = KF
    if args and args[0] == "--out":
        out = args[1]
        args = args[2:]
    want = set(args)
    d = json.load(open(KF))
    props = sorted({f["property"] for f in d["findings"] if f.get("status") == "fixed"})
    for pid in props:
        if want and pid not in want:
            continue
        fixed = [f for f in d["findings"] if f["property"] == pid and f.get("status") == "fixed"]
        allsigs = [f["signature"] for f in d["findings"] if f["property"] == pid]
        rdir = os.path.join(V, "regress", pid)
        # drop the old rapid fail files of this property (fuzz crashers under regress/<ID>/fuzz stay)
        for old in glob.glob(os.path.join(rdir, "*.fail")):
            os.remove(old)
        os.makedirs(rdir, exist_ok=True)
        for f in fixed:
            sig, commit = f["signature"], f["commit"]
            wt = "/tmp/kv-rr-%s" % pid
            subprocess.run(["git", "-C", "/repo", "worktree", "remove", "--force", wt], capture_output=True)
            subprocess.run(["git", "-C", "/repo", "worktree", "prune"])
            subprocess.run(["git", "-C", "/repo", "worktree", "add", "-q", "--detach", wt, commit + "^"], check=True)
            kept = []
            try:
                for seed in ("1", "2", "3"):
                    scratch = os.path.join(V, ".build", pid, "replays-scratch")
                    shutil.rmtree(scratch, ignore_errors=True)
                    env = dict(os.environ, VERIF_REPO=wt, VERIF_SEED=seed,
                               VERIF_KNOWN_EXTRA=",".join(s for s in allsigs if s != sig))
                    run([os.path.join(V, "check"), pid], env)
                    for logp in sorted(glob.glob(os.path.join(scratch, "*.log"))):
                        head = open(logp).readline()
                        m = re.search(r"signature=(\S+)", head)
                        failp = logp[:-4] + ".fail"
                        if not m or m.group(1) != sig or not os.path.exists(failp):
                            continue
                        base = os.path.basename(failp)
                        unit_test = base.rsplit("__seed", 1)[0]
                        dst = os.path.join(rdir, "%s__fixed-%s.fail" % (unit_test, slug(sig)))
                        if os.path.exists(dst):
                            continue
                        shutil.copyfile(failp, dst)
                        # must fail before the fix ...
                        r1 = run([os.path.join(V, "check"), pid, "--replay", dst], dict(os.environ, VERIF_REPO=wt))
                        # ... and pass on HEAD
                        r2 = run([os.path.join(V, "check"), pid, "--replay", dst])
                        if r1.returncode == 1 and r2.returncode == 0:
                            kept.append(os.path.relpath(dst, V))
                        else:
                            os.remove(dst)
                    if kept:
                        break
            finally:
                subprocess.run(["git", "-C", "/repo", "worktree", "remove", "--force", wt], capture_output=True)
                subprocess.run(["git", "-C", "/repo", "worktree", "prune"])
            if kept:
                f["replay"] = ", ".join(kept)
            else:
                f["replay"] = "(none kept: no rapid fail file of the current harness reproduces exactly this signature at %s^ within 3 quick seeds; the generator still produces the triggering shape, see the class counters in the evidence)" % commit
            print("%s %-75s %s" % (pid, sig[:75], kept if kept else "NONE"), flush=True)
    if out == KF:
        json.dump(d, open(KF, "w"), indent=1, ensure_ascii=False)
    else:  # side file: only the replay fields of the properties handled here (merge with lib/recapture_merge.py)
        json.dump([{"property": f["property"], "signature": f["signature"], "replay": f.get("replay")} for f in d["findings"]
                   if f.get("status") == "fixed" and (not want or f["property"] in want)], open(out, "w"), indent=1, ensure_ascii=False)


if __name__ == "__main__":
    main()
