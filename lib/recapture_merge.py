#!/usr/bin/env python3
"""Merge the side files written by `recapture_regress.py --out F ID...` into known_findings.json: lib/recapture_merge.py F..."""
import json, os, sys
V = os.path.dirname(os.path.dirname(os.path.abspath(__file__)))
KF = os.path.join(V, "known_findings.json")
d = json.load(open(KF))
idx = {(f["property"], f["signature"]): f for f in d["findings"]}
for fn in sys.argv[1:]:
    for e in json.load(open(fn)):
        idx[(e["property"], e["signature"])]["replay"] = e["replay"]
json.dump(d, open(KF, "w"), indent=1, ensure_ascii=False)
print("merged", len(sys.argv) - 1, "files")
