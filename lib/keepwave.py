#!/usr/bin/env python3
"""keepwave.py <prefix> <offset> ID...  — keep every confirmed seed of /tmp/seedeval-<prefix>-<ID>.jsonl as seeded/<ID>-<k+offset>."""
import json, os, subprocess, sys
V = os.path.dirname(os.path.dirname(os.path.abspath(__file__)))
pfx, off = sys.argv[1], int(sys.argv[2])
for pid in sys.argv[3:]:
    for line in open("/tmp/seedeval-%s-%s.jsonl" % (pfx, pid)):
        line = line.strip()
        if not line.startswith("{"):
            print("SKIP non-json", pid, line[:100]); continue
        r = json.loads(line)
        k = int(r["dir"].rstrip("/").rsplit("/", 1)[1])
        ok = r.get("applies") and r.get("existing_tests_pass_with_patch") and r.get("demo_fails_with_patch") and r.get("demo_passes_without_patch")
        if not ok:
            print("NOT CONFIRMED", pid, k, {x: r.get(x) for x in ("applies", "existing_tests_pass_with_patch", "demo_fails_with_patch", "demo_passes_without_patch")}); continue
        subprocess.run([sys.executable, os.path.join(V, "lib/keepseed.py"), pid, r["dir"], "%s-%d" % (pid, k + off), json.dumps(r), "wave"], check=True)
