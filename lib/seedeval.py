#!/usr/bin/env python3
"""Evaluate one seeded change against the checks.

usage: seedeval.py <ID> <seed-dir> [--tier quick|thorough] [--skip-confirm] [--keep]

<seed-dir> holds patch.diff, zz_seed_demo_test.go, demo_pkg.txt, meta.json (as written by a seeding sub-agent or as kept under
/verif/seeded/<name>/). Steps, all in a scratch worktree of /repo HEAD under /tmp (removed afterwards):
  1. patch applies; touched packages build; their existing tests pass with the patch   (confirm)
  2. demo fails with the patch and passes without it                                      (confirm)
  3. VERIF_REPO=<worktree> ./check <ID>  -> exit 1 expected (detected)
Prints a JSON summary on the last line.
"""
import json, os, re, subprocess, sys, tempfile, shutil, time

VERIF = os.path.dirname(os.path.dirname(os.path.abspath(__file__)))
REPO = "/repo"


def sh(cmd, cwd=None, env=None, timeout=3600):
    p = subprocess.run(cmd, cwd=cwd, env=env, shell=isinstance(cmd, str), stdout=subprocess.PIPE, stderr=subprocess.STDOUT,
                       text=True, errors="replace", timeout=timeout)
    return p.returncode, p.stdout


def touched_pkgs(patch):
    pk = set()
    for m in re.finditer(r"^\+\+\+ b/(.+)$", patch, re.M):
        f = m.group(1)
        if f.endswith(".go"):
            pk.add(os.path.dirname(f))
    return sorted(pk)


def main():
    import argparse
    ap = argparse.ArgumentParser()
    ap.add_argument("id")
    ap.add_argument("dir")
    ap.add_argument("--tier", default="quick")
    ap.add_argument("--skip-confirm", action="store_true")
    ap.add_argument("--keep", action="store_true")
    ap.add_argument("--seed", default="1")
    a = ap.parse_args()
    d = os.path.abspath(a.dir)
    patch = open(os.path.join(d, "patch.diff")).read()
    res = {"id": a.id, "dir": d, "applies": False}
    wt = tempfile.mkdtemp(prefix="kv-seedeval-%s-" % a.id, dir="/tmp")
    os.rmdir(wt)
    rc, out = sh(["git", "-C", REPO, "worktree", "add", "-q", "--detach", wt, "HEAD"])
    if rc != 0:
        print(out)
        return 2
    try:
        overlay = os.path.join(wt, ".seed-overlay.json")
        with open(overlay, "w") as f:
            json.dump({"Replace": {os.path.join(wt, "pkg/koordlet/util/perf_group/perf_group_linux.go"):
                                   os.path.join(VERIF, "harness/stubs/perf_group_linux.go")}}, f)
        rc, out = sh(["git", "apply", os.path.join(d, "patch.diff")], cwd=wt)
        res["applies"] = rc == 0
        if rc != 0:
            res["apply_output"] = out[-2000:]
            print(json.dumps(res))
            return 2
        pkgs = touched_pkgs(patch)
        res["touched"] = pkgs
        env = dict(os.environ)
        env.pop("GOFLAGS", None)
        if not a.skip_confirm:
            t0 = time.time()
            rc, out = sh(["go", "test", "-overlay=" + overlay, "-count=1", "-vet=off"] + ["./" + p for p in pkgs], cwd=wt, env=env)
            res["existing_tests_pass_with_patch"] = rc == 0
            res["existing_tests_s"] = round(time.time() - t0)
            if rc != 0:
                res["existing_tests_output"] = out[-3000:]
            demo = os.path.join(d, "zz_seed_demo_test.go")
            if os.path.exists(demo):
                dpkg = open(os.path.join(d, "demo_pkg.txt")).read().strip()
                dst = os.path.join(wt, dpkg, "zz_seed_demo_test.go")
                shutil.copyfile(demo, dst)
                src = open(demo).read()
                names = re.findall(r"^func (Test\w+)\(", src, re.M)
                runre = "^(" + "|".join(names) + ")$"
                rc1, out1 = sh(["go", "test", "-overlay=" + overlay, "-count=1", "-vet=off", "-run", runre, "./" + dpkg], cwd=wt, env=env)
                res["demo_fails_with_patch"] = rc1 != 0 and ("--- FAIL" in out1 or "panic" in out1)
                sh(["git", "apply", "-R", os.path.join(d, "patch.diff")], cwd=wt)
                rc2, out2 = sh(["go", "test", "-overlay=" + overlay, "-count=1", "-vet=off", "-run", runre, "./" + dpkg], cwd=wt, env=env)
                res["demo_passes_without_patch"] = rc2 == 0
                if rc2 != 0:
                    res["demo_without_output"] = out2[-2000:]
                if not res["demo_fails_with_patch"]:
                    res["demo_with_output"] = out1[-2000:]
                os.remove(dst)
                sh(["git", "apply", os.path.join(d, "patch.diff")], cwd=wt)
        env2 = dict(os.environ)
        env2["VERIF_REPO"] = wt
        env2["VERIF_SEED"] = a.seed
        t0 = time.time()
        rc, out = sh([os.path.join(VERIF, "check"), a.id, "--tier", a.tier], cwd=VERIF, env=env2, timeout=7200)
        res["check_exit"] = rc
        res["check_s"] = round(time.time() - t0)
        res["detected"] = rc == 1
        res["signatures"] = sorted(set(re.findall(r"VERIF-SIG\[([^\]]+)\]", out)))
        if "WARNING: DATA RACE" in out:
            res["signatures"].append("data-race")
        if rc != 1:
            res["check_tail"] = out[-1500:]
    finally:
        if not a.keep:
            sh(["git", "-C", REPO, "worktree", "remove", "--force", wt])
            sh(["git", "-C", REPO, "worktree", "prune"])
            shutil.rmtree(wt, ignore_errors=True)
    print(json.dumps(res))
    return 0


if __name__ == "__main__":
    sys.exit(main())
