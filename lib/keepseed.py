#!/usr/bin/env python3
"""Keep a confirmed seeded change: keepseed.py <ID> <src-dir> <name> '<json result of seedeval>' [note]"""
import json, os, shutil, sys
V = os.path.dirname(os.path.dirname(os.path.abspath(__file__)))
pid, src, name, res = sys.argv[1], sys.argv[2], sys.argv[3], json.loads(sys.argv[4])
note = sys.argv[5] if len(sys.argv) > 5 else ""
dst = os.path.join(V, "seeded", name)
os.makedirs(dst, exist_ok=True)
for f in ("patch.diff", "zz_seed_demo_test.go", "demo_pkg.txt"):
    if os.path.exists(os.path.join(src, f)):
        shutil.copyfile(os.path.join(src, f), os.path.join(dst, f))
meta = json.load(open(os.path.join(src, "meta.json"))) if os.path.exists(os.path.join(src, "meta.json")) else {}
meta["property"] = pid
meta["coordinator_confirmation"] = {
    "ran": "python3 lib/seedeval.py %s seeded/%s  (scratch worktree of /repo HEAD: git apply patch.diff; go test <touched packages>; demo with and without the patch; VERIF_REPO=<worktree> ./check %s)" % (pid, name, pid),
    "patch_applies": res.get("applies"), "existing_tests_pass_with_patch": res.get("existing_tests_pass_with_patch"),
    "demo_fails_with_patch": res.get("demo_fails_with_patch"), "demo_passes_without_patch": res.get("demo_passes_without_patch"),
    "check_exit_with_patch": res.get("check_exit"), "detected": res.get("detected"), "signatures": res.get("signatures"),
    "note": note}
json.dump(meta, open(os.path.join(dst, "meta.json"), "w"), indent=1)
print("kept", dst, "detected=", res.get("detected"))
