#!/bin/sh
# usage: lib/seedbatch.sh [-p prefix] ID...   evaluates /tmp/<prefix>-<ID>/SEED/{1..4} and writes /tmp/seedeval-<prefix>-<ID>.jsonl (prefix default "seed")
cd "$(dirname "$0")/.." || exit 1
PFX=seed
if [ "$1" = "-p" ]; then PFX=$2; shift; shift; fi
for id in "$@"; do
  : > /tmp/seedeval-$PFX-$id.jsonl
  for k in 1 2 3 4; do
    [ -d /tmp/$PFX-$id/SEED/$k ] || continue
    python3 lib/seedeval.py $id /tmp/$PFX-$id/SEED/$k 2>&1 | tail -1 >> /tmp/seedeval-$PFX-$id.jsonl
  done
  echo "done $id"
done
