#!/bin/sh
# usage: lib/seedbatch.sh ID...   evaluates /tmp/seed-<ID>/SEED/{1,2,3} and writes /tmp/seedeval-<ID>.jsonl
cd "$(dirname "$0")/.." || exit 1
for id in "$@"; do
  : > /tmp/seedeval-$id.jsonl
  for k in 1 2 3 4; do
    [ -d /tmp/seed-$id/SEED/$k ] || continue
    python3 lib/seedeval.py $id /tmp/seed-$id/SEED/$k 2>&1 | tail -1 >> /tmp/seedeval-$id.jsonl
  done
  echo "done $id"
done
