#!/bin/sh
# usage: lib/capture_regress.sh <ID> <pre-fix-commit> <label> [known-extra-signatures]
# Re-finds a fixed defect on the tree before its fix and stores the shrunk rapid fail file(s) under regress/<ID>/.
ID=$1; COMMIT=$2; LABEL=$3; EXTRA=$4
cd "$(dirname "$0")/.." || exit 1
WT=/tmp/kv-regress-$ID
git -C /repo worktree remove --force $WT 2>/dev/null; git -C /repo worktree prune
git -C /repo worktree add -q --detach $WT "$COMMIT" || exit 1
rm -rf .build/$ID/replays-scratch
VERIF_REPO=$WT VERIF_KNOWN_EXTRA=$EXTRA ./check $ID 2>&1 | grep -E "^VIOLATION|^property=|VERIF-SIG" | cut -c1-300 | sort | uniq | head -12
mkdir -p regress/$ID
for f in .build/$ID/replays-scratch/*.fail; do
  [ -f "$f" ] || continue
  b=$(basename "$f" .fail); unit_test=${b%__seed*}
  cp "$f" "regress/$ID/${unit_test}__${LABEL}.fail"; echo "saved regress/$ID/${unit_test}__${LABEL}.fail"
done
git -C /repo worktree remove --force $WT; git -C /repo worktree prune
