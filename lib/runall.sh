#!/bin/sh
# usage: lib/runall.sh [quick|thorough] [ids...]  — runs every claimed check (or the given ones) and prints one summary line each
cd "$(dirname "$0")/.." || exit 1
TIER=${1:-quick}; shift
IDS="$@"
[ -n "$IDS" ] || IDS=$(python3 -c "import sys; sys.path.insert(0,'lib'); import manifest_meta as mm; print(' '.join(sorted(mm.CLAIMED)))")
for id in $IDS; do
  out=$(./check $id --tier $TIER 2>&1); rc=$?
  echo "$out" | grep -E "^(VIOLATION|KNOWN-FINDING|INCONCLUSIVE|property=)" | cut -c1-260
  echo "== $id exit=$rc"
done
