#!/usr/bin/env python3
"""Re-run every kept seeded change against the current checks (skip the confirmation steps) and record the result
in seeded/<name>/meta.json under "final_evaluation". usage: lib/reeval_seeded.py [name-prefix ...]"""
import json, os, subprocess, sys, glob
V = os.path.dirname(os.path.dirname(os.path.abspath(__file__)))
want = sys.argv[1:]
rows = []
for d in sorted(glob.glob(os.path.join(V, "seeded", "*"))):
    name = os.path.basename(d)
    if want and not any(name.startswith(w) for w in want):
        continue
    mp = os.path.join(d, "meta.json")
    m = json.load(open(mp))
    pid = m["property"]
    fe = m.get("final_evaluation") or {}
    if fe.get("note", "").startswith(("neutralised", "superseded")) or fe.get("in_scope") is False:
        print(name, "kept manual verdict:", (fe.get("note") or fe.get("why"))[:80], flush=True)
        continue
    out = subprocess.run(["python3", os.path.join(V, "lib", "seedeval.py"), pid, d, "--skip-confirm"], capture_output=True, text=True).stdout
    try:
        r = json.loads(out.strip().splitlines()[-1])
    except Exception:
        r = {"error": out[-500:]}
    m["final_evaluation"] = {"check_exit_with_patch": r.get("check_exit"), "detected": r.get("detected"), "signatures": r.get("signatures"),
                             "ran": "python3 lib/seedeval.py %s seeded/%s --skip-confirm" % (pid, name)}
    if r.get("detected"):
        m.setdefault("coordinator_confirmation", {})["detected"] = True
        m["coordinator_confirmation"]["signatures"] = r.get("signatures")
    json.dump(m, open(mp, "w"), indent=1)
    rows.append((name, r.get("detected"), r.get("signatures")))
    print(name, r.get("detected"), r.get("signatures"), flush=True)
print("detected %d of %d" % (sum(1 for x in rows if x[1]), len(rows)))
