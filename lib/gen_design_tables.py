#!/usr/bin/env python3
"""Regenerate the generated regions of DESIGN.md (as-built budgets table, seeded-change table) in place."""
import json, os, re, sys, glob
V = os.path.dirname(os.path.dirname(os.path.abspath(__file__)))
sys.path.insert(0, os.path.join(V, "lib"))
import registry

def budgets():
    out = ["| property | unit (package) | test | quick cases x procs | thorough cases x procs | notes |", "|---|---|---|---|---|---|"]
    for pid in sorted(registry.PROPS):
        for u in registry.PROPS[pid]["units"]:
            for t in u["tests"]:
                notes = []
                if t.get("race"): notes.append("-race")
                if t.get("steps"): notes.append("steps %d" % t["steps"])
                if t.get("rapid") is False and not t.get("fuzz"): notes.append("plain enumeration")
                if t.get("fuzz"):
                    out.append("| %s | %s (%s) | %s | — | native fuzz %s | coverage-guided |" % (pid, u["name"], u["pkg"].replace("pkg/", ""), t["run"], t.get("fuzztime", "45s")))
                    continue
                q = "—" if t.get("thorough_only") else "%s x %d" % (t.get("quick", "-"), t.get("quick_shards", 1))
                th = "%s x %d" % (t.get("thorough", t.get("quick", "-")), t.get("shards", 12))
                out.append("| %s | %s (%s) | %s | %s | %s | %s |" % (pid, u["name"], u["pkg"].replace("pkg/", ""), t["run"], q, th, ", ".join(notes)))
    return "\n".join(out)

MISSED_AT_FIRST = set("""C13-9 C20-8 C06-7 C06-8 C14-7 C14-8 C01-8 C01-9 C11-9 C12-7 C12-9 C09-7 C05-8 C17-7 C17-8 C07-7 C07-8 C07-9 C16-7 C16-8 C02-8 C19-8 C19-9
C20-10 C20-11 C04-12 C03-12 C10-11 C10-12 C08-12 C02-11 C16-11 C16-12 C11-11 C09-11 C12-10 C17-10 C17-11 C07-10 C07-11 C01-12 C06-10 C06-11 C19-10 C19-11 C19-12
C09-13 C05-15 C11-14 C04-13 C04-14 C08-14 C12-13 C12-14 C03-15 C17-13 C17-15 C18-14 C07-13 C07-15 C01-15 C06-13 C06-14 C06-15 C19-14 C19-15
C13-19 C13-21 C06-19 C06-20 C07-19 C20-20 C14-19 C14-20 C14-21 C05-19 C10-19 C17-19 C17-21 C11-19 C01-21 C12-21 C09-21
C05-22 C19-22
C13-16 C18-16 C18-17 C08-18 C15-18 C11-16 C04-17 C17-16 C17-17 C19-16 C19-17 C19-18 C07-17 C06-16 C06-18 C03-16 C03-17 C05-16""".split())


def seeded():
    out = ["| seeded change | property | what was changed | needs | detected by (signature) | note |", "|---|---|---|---|---|---|"]
    for d in sorted(glob.glob(os.path.join(V, "seeded", "*"))):
        mp = os.path.join(d, "meta.json")
        if not os.path.exists(mp):
            continue
        m = json.load(open(mp))
        cc = m.get("coordinator_confirmation", {})
        def cell(x, n=220):
            x = re.sub(r"\s+", " ", str(x or "")).replace("|", "/")
            return x[:n] + ("…" if len(x) > n else "")
        fe = m.get("final_evaluation") or {}
        sigs = fe.get("signatures") or cc.get("signatures") or []
        if fe.get("in_scope") is False:
            det = "not chased: outside the property (see meta.json)"
        elif fe.get("detected") is None and fe.get("note"):
            det = "no longer applicable: " + fe["note"].split(":")[0]
        elif fe.get("detected") or (not fe and cc.get("detected")):
            det = ", ".join(sigs)
        else:
            det = "NOT DETECTED"
        name = os.path.basename(d)
        k = int(name.split("-")[1])
        wave = (k - 1) // 3 + 1
        note = cc.get("note") or ""
        if wave >= 3:
            note = "wave %d: %s" % (wave, "missed at first, caught after the extension of §4.0" if name in MISSED_AT_FIRST else
                                    ("judged outside the property" if fe.get("in_scope") is False else "caught by the check as it stood"))
        elif not note.startswith(("wave", "missed", "caught", "re-introduces", "superseded", "neutralised")):
            note = "wave %d: %s" % (wave, note)
        if m.get("rebased"):
            note += "; patch rebased onto fix %s" % m["rebased"].get("onto")
        out.append("| %s | %s | %s | %s | %s | %s |" % (name, m.get("property"), cell(m.get("summary")), cell(m.get("needs"), 160), cell(det, 160), cell(note, 200)))
    return "\n".join(out)

p = os.path.join(V, "DESIGN.md")
s = open(p).read()
for name, fn in (("BUDGETS", budgets), ("SEEDED", seeded)):
    a, b = "<!-- BEGIN GENERATED %s -->" % name, "<!-- END GENERATED %s -->" % name
    if a in s and b in s:
        s = s[:s.index(a) + len(a)] + "\n" + fn() + "\n" + s[s.index(b):]
open(p, "w").write(s)
print("ok")
