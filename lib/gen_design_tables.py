#!/usr/bin/env python3
"""Regenerate the generated regions of DESIGN.md (as-built budgets table, seeded-change table) in place."""
import json, os, re, sys, glob
V = os.path.dirname(os.path.dirname(os.path.abspath(__file__)))
sys.path.insert(0, os.path.join(V, "lib"))
import registry

def budgets():
    out = ["| property | unit (package) | test | quick cases x procs | thorough cases x procs | notes |", "|---|---|---|---|---|---|"]
    for pid in sorted(registry.PROPS):
        for u in registry.PROPS[pid]["units"]:
            for t in u["tests"]:
                notes = []
                if t.get("race"): notes.append("-race")
                if t.get("steps"): notes.append("steps %d" % t["steps"])
                if t.get("rapid") is False and not t.get("fuzz"): notes.append("plain enumeration")
                if t.get("fuzz"):
                    out.append("| %s | %s (%s) | %s | — | native fuzz %s | coverage-guided |" % (pid, u["name"], u["pkg"].replace("pkg/", ""), t["run"], t.get("fuzztime", "45s")))
                    continue
                q = "—" if t.get("thorough_only") else "%s x %d" % (t.get("quick", "-"), t.get("quick_shards", 1))
                th = "%s x %d" % (t.get("thorough", t.get("quick", "-")), t.get("shards", 12))
                out.append("| %s | %s (%s) | %s | %s | %s | %s |" % (pid, u["name"], u["pkg"].replace("pkg/", ""), t["run"], q, th, ", ".join(notes)))
    return "\n".join(out)

def seeded():
    out = ["| seeded change | property | what was changed | needs | detected by (signature) | note |", "|---|---|---|---|---|---|"]
    for d in sorted(glob.glob(os.path.join(V, "seeded", "*"))):
        mp = os.path.join(d, "meta.json")
        if not os.path.exists(mp):
            continue
        m = json.load(open(mp))
        cc = m.get("coordinator_confirmation", {})
        def cell(x, n=220):
            x = re.sub(r"\s+", " ", str(x or "")).replace("|", "/")
            return x[:n] + ("…" if len(x) > n else "")
        det = ", ".join(cc.get("signatures") or []) if cc.get("detected") else "NOT DETECTED"
        out.append("| %s | %s | %s | %s | %s | %s |" % (os.path.basename(d), m.get("property"), cell(m.get("summary")), cell(m.get("needs"), 160), cell(det, 160), cell(cc.get("note"), 200)))
    return "\n".join(out)

p = os.path.join(V, "DESIGN.md")
s = open(p).read()
for name, fn in (("BUDGETS", budgets), ("SEEDED", seeded)):
    a, b = "<!-- BEGIN GENERATED %s -->" % name, "<!-- END GENERATED %s -->" % name
    if a in s and b in s:
        s = s[:s.index(a) + len(a)] + "\n" + fn() + "\n" + s[s.index(b):]
open(p, "w").write(s)
print("ok")
