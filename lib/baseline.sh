#!/bin/sh
# Re-run koordinator's own pinned test suite (the command of /root/.vp/BASELINE.json) on /repo's working tree and compare with its
# stable_pass list. usage: lib/baseline.sh [run|compare]   (run: background-safe, writes /tmp/baseline-run.json; compare: prints the verdict)
case "${1:-run}" in
run)
  rm -f /tmp/baseline-run.done
  (cd /repo && go test -mod=mod -json -vet=off -count=1 -timeout 25m ./... > /tmp/baseline-run.json 2>/tmp/baseline-run.err; echo done > /tmp/baseline-run.done)
  git -C /repo status --short | head -5
  ;;
esac
python3 - <<'EOF'
import json
stable=json.load(open('/root/.vp/BASELINE.json'))['stable_pass']
res={}
for l in open('/tmp/baseline-run.json'):
    try: e=json.loads(l)
    except Exception: continue
    if e.get('Action') in ('pass','fail','skip') and e.get('Test'):
        res[e['Package']+'::'+e['Test']]=e['Action']
missing=[t for t in stable if t not in res]
failed=[t for t in stable if res.get(t)=='fail']
print("stable",len(stable),"passed",sum(1 for t in stable if res.get(t)=='pass'),"failed",len(failed),"missing",len(missing),"skipped",sum(1 for t in stable if res.get(t)=='skip'))
for t in failed[:30]: print("FAIL",t)
for t in missing[:10]: print("MISSING",t)
allfail=[t for t,a in res.items() if a=='fail']
print("all failing tests:",len(allfail))
for t in allfail[:20]: print("  ",t, t in stable)
EOF
