#!/usr/bin/env python3
"""Print the prompt for an independent seeding sub-agent: python3 lib/mkseedprompt.py <ID> <worktree> [N]"""
import json, sys, os
V = os.path.dirname(os.path.dirname(os.path.abspath(__file__)))
pid, wt = sys.argv[1], sys.argv[2]
n = sys.argv[3] if len(sys.argv) > 3 else "3"
p = next(json.loads(l) for l in open(os.path.join(V, "properties.jsonl")) if json.loads(l)["id"] == pid)
t = open(os.path.join(V, "lib", "seed_prompt.txt")).read()
print(t.replace("{WT}", wt).replace("{TITLE}", p["title"]).replace("{STATEMENT}", p["statement"])
      .replace("{QUANT}", p["quantifier"]["text"]).replace("{FILES}", ", ".join(p["anchors"]["files"]))
      .replace("{N}", n).replace("{ID}", pid))
