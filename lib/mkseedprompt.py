#!/usr/bin/env python3
"""Print the prompt for an independent seeding sub-agent: python3 lib/mkseedprompt.py <ID> <worktree> [N]"""
import json, sys, os
V = os.path.dirname(os.path.dirname(os.path.abspath(__file__)))
pid, wt = sys.argv[1], sys.argv[2]
n = sys.argv[3] if len(sys.argv) > 3 else "3"
p = next(json.loads(l) for l in open(os.path.join(V, "properties.jsonl")) if json.loads(l)["id"] == pid)
t = open(os.path.join(V, "lib", "seed_prompt.txt")).read()
avoid = []
import glob, re
for d in sorted(glob.glob(os.path.join(V, "seeded", pid + "-*"))):
    mp = os.path.join(d, "meta.json")
    if os.path.exists(mp):
        m = json.load(open(mp))
        avoid.append("- " + re.sub(r"\s+", " ", str(m.get("summary", "")))[:400])
extra = ""
if avoid and os.environ.get("SEED_AVOID", "1") != "0":
    extra = ("\n\nOther engineers have ALREADY seeded the following changes for this property; do not repeat them or close variants "
             "(same site and same mechanism). Look for different code sites, different clauses of the statement, and subtler triggers "
             "(longer operation sequences, rarer configurations, interactions between two features, boundary arithmetic):\n" + "\n".join(avoid) + "\n")
t = t.replace("Do not touch *_test.go files of the project in the change itself", extra + "\nDo not touch *_test.go files of the project in the change itself", 1) if extra else t
print(t.replace("{WT}", wt).replace("{TITLE}", p["title"]).replace("{STATEMENT}", p["statement"])
      .replace("{QUANT}", p["quantifier"]["text"]).replace("{FILES}", ", ".join(p["anchors"]["files"]))
      .replace("{N}", n).replace("{ID}", pid))
