#!/usr/bin/env python3
"""For every fixed finding: its regress file(s) must FAIL on the tree just before the fix commit and PASS on /repo HEAD.
usage: lib/verify_regress.py [ID ...]"""
import json, os, subprocess, sys
V = os.path.dirname(os.path.dirname(os.path.abspath(__file__)))
want = set(sys.argv[1:])
d = json.load(open(os.path.join(V, "known_findings.json")))
bad = 0
for f in d["findings"]:
    if f.get("status") != "fixed" or (want and f["property"] not in want):
        continue
    pid, commit = f["property"], f["commit"]
    wt = "/tmp/kv-vr-%s" % pid
    subprocess.run(["git", "-C", "/repo", "worktree", "remove", "--force", wt], capture_output=True)
    subprocess.run(["git", "-C", "/repo", "worktree", "prune"])
    subprocess.run(["git", "-C", "/repo", "worktree", "add", "-q", "--detach", wt, commit + "^"], check=True)
    try:
        for rp in [x.strip() for x in f["replay"].split(",")]:
            path = os.path.join(V, rp)
            env = dict(os.environ, VERIF_REPO=wt)
            r1 = subprocess.run([os.path.join(V, "check"), pid, "--replay", path], cwd=V, env=env, capture_output=True, text=True)
            env.pop("VERIF_REPO")
            r2 = subprocess.run([os.path.join(V, "check"), pid, "--replay", path], cwd=V, env=env, capture_output=True, text=True)
            sig_ok = f["signature"] in r1.stdout
            ok = r1.returncode == 1 and r2.returncode == 0
            if not ok or not sig_ok:
                bad += 1
            print("%s %s %-60s before-fix exit=%d sig=%s  HEAD exit=%d  %s" % ("OK " if ok and sig_ok else "BAD", pid, os.path.basename(rp)[:60], r1.returncode, sig_ok, r2.returncode, f["signature"]), flush=True)
    finally:
        subprocess.run(["git", "-C", "/repo", "worktree", "remove", "--force", wt], capture_output=True)
        subprocess.run(["git", "-C", "/repo", "worktree", "prune"])
sys.exit(1 if bad else 0)
